//! C17 – iterator and I/O adaptors are transparent and count exactly.
//! Correspondence with model/Adaptors.v (scripted inner object wrapped by the REAL adaptors,
//! tokio/futures polled by hand with a no-op waker) + independent oracle + rayon runs.
//! The oracle (`apply_reps`, the transparency comparisons in `run_seq`) is written from the property
//! text.  /repo HEAD meets it; the four defects this oracle found last (fixed by 7fc986e, 3a319c2,
//! c811d79, 2747e49) keep their narrow classes, so a regression is reported under the same name
//! (docs/C17.md "Findings").  The correspondence compares with the model variant `head_code`.
use futures_core::Stream;
use indicatif::{ParallelProgressIterator, ProgressBar, ProgressDrawTarget, ProgressFinish, ProgressIterator};
use rayon::prelude::*;
use std::collections::VecDeque;
use std::io::{self, BufRead, IoSlice, IoSliceMut, Read, Seek, SeekFrom, Write};
use std::pin::Pin;
use std::sync::atomic::{AtomicU64, Ordering};
use std::task::{Context, Poll, RawWaker, RawWakerVTable, Waker};
use tokio::io::{AsyncBufRead, AsyncRead, AsyncSeek, AsyncWrite, ReadBuf};
use verif_harness::*;

// ------------------------------------------------------------------ scripted inner object (state machine `St`, handle `Scripted`)
#[derive(Clone, Debug, PartialEq)]
enum Ev {
    N(u64),
    Err(u64),
    Pend,
    Item(u64),
    End,
    PartialErr(u64, u64),
    Shrink(u64),
}
impl Ev {
    fn coq(&self) -> String {
        match self {
            Ev::N(n) => format!("EvN {n}"),
            Ev::Err(c) => format!("EvErr {c}"),
            Ev::Pend => "EvPend".into(),
            Ev::Item(x) => format!("EvItem {x}"),
            Ev::End => "EvEnd".into(),
            Ev::PartialErr(k, c) => format!("EvPartialErr {k} {c}"),
            Ev::Shrink(k) => format!("EvShrink {k}"),
        }
    }
}

/// What an inner call REPORTED to its caller (recorded by the scripted object itself; this is
/// what the oracle counts – it never looks at the model).
#[derive(Clone, Debug, PartialEq)]
enum Rep {
    /// n items / bytes were handed over (Ok(n), Some(item), consume(amt), Ready with n new filled bytes)
    Moved(u64),
    /// a seek arrived at this offset
    SeekTo(u64),
    /// an iterator (blocking: None; stream: Ready(None)) reported exhaustion
    End,
    /// error / Pending / query: nothing was transferred
    Nothing,
    /// read_exact failed after putting k bytes into the caller's buffer.  The call reports only
    /// Err: Interpretation I1 of docs/C17.md (nothing is counted), tallied in the distribution
    ExactPartial(u64),
}

const E_WOULDBLOCK: u64 = 11;
const E_EOF: u64 = 38;
const HASH_M: u128 = 2305843009213693951;

#[derive(Clone, Debug)]
struct St {
    evs: VecDeque<Ev>,
    ctr: u64,
    sink: u64,
    slice: Vec<u8>,
    log: Vec<Rep>,
}

enum CRes {
    K(u64),
    E(u64),
    P,
}
fn norm(e: &Ev) -> CRes {
    match e {
        Ev::N(k) => CRes::K(*k),
        Ev::Err(c) => CRes::E(*c),
        Ev::Pend => CRes::P,
        Ev::PartialErr(_, c) => CRes::E(*c),
        Ev::Item(_) | Ev::End | Ev::Shrink(_) => CRes::K(0),
    }
}
fn err(c: u64) -> io::Error {
    io::Error::from_raw_os_error(c as i32)
}
fn pat(ctr: u64, k: u64) -> Vec<u8> {
    (0..k).map(|i| (ctr.wrapping_add(i) % 251) as u8).collect()
}

impl St {
    fn new(evs: &[Ev]) -> Self {
        St { evs: evs.iter().cloned().collect(), ctr: 0, sink: 0, slice: vec![], log: vec![] }
    }
    fn pop(&mut self) -> Ev {
        self.evs.pop_front().unwrap_or(Ev::End)
    }
    fn peek(&self) -> Ev {
        self.evs.front().cloned().unwrap_or(Ev::End)
    }
    fn mix(&mut self, x: u64) {
        self.sink = ((self.sink as u128 * 1000003 + x as u128 + 1) % HASH_M) as u64;
    }
    fn adv(&mut self, k: u64) {
        self.ctr = self.ctr.wrapping_add(k);
    }
    fn leading_items(&self) -> usize {
        self.evs.iter().take_while(|e| matches!(e, Ev::Item(_))).count()
    }
    fn seek_code(&mut self, f: SeekFrom) {
        match f {
            SeekFrom::Start(n) => {
                self.mix(1);
                self.mix(n)
            }
            SeekFrom::End(z) => {
                self.mix(if z < 0 { 2 } else { 3 });
                self.mix(z.unsigned_abs())
            }
            SeekFrom::Current(z) => {
                self.mix(if z < 0 { 4 } else { 5 });
                self.mix(z.unsigned_abs())
            }
        }
    }
    /// common part of read / read_vectored: returns the bytes to hand over
    fn do_read(&mut self, n: u64) -> io::Result<Vec<u8>> {
        let e = self.pop();
        match norm(&e) {
            CRes::K(k) => {
                let m = k.min(n);
                let d = pat(self.ctr, m);
                self.adv(m);
                self.log.push(Rep::Moved(m));
                Ok(d)
            }
            CRes::E(c) => {
                self.log.push(Rep::Nothing);
                Err(err(c))
            }
            CRes::P => {
                self.log.push(Rep::Nothing);
                Err(err(E_WOULDBLOCK))
            }
        }
    }
    fn do_write(&mut self, d: &[u8]) -> io::Result<usize> {
        let e = self.pop();
        match norm(&e) {
            CRes::K(k) => {
                let m = k.min(d.len() as u64);
                for b in &d[..m as usize] {
                    self.mix(*b as u64);
                }
                self.adv(m);
                self.log.push(Rep::Moved(m));
                Ok(m as usize)
            }
            CRes::E(c) => {
                self.log.push(Rep::Nothing);
                Err(err(c))
            }
            CRes::P => {
                self.log.push(Rep::Nothing);
                Err(err(E_WOULDBLOCK))
            }
        }
    }
    fn do_done(&mut self) -> io::Result<()> {
        let e = self.pop();
        self.log.push(Rep::Nothing);
        match norm(&e) {
            CRes::K(_) => Ok(()),
            CRes::E(c) => Err(err(c)),
            CRes::P => Err(err(E_WOULDBLOCK)),
        }
    }
    fn do_fill(&mut self) -> Result<(), Option<u64>> {
        // Ok: self.slice holds the lent bytes; Err(Some(c)): error; Err(None): pending
        let e = self.pop();
        self.log.push(Rep::Nothing);
        match norm(&e) {
            CRes::K(k) => {
                self.slice = pat(self.ctr, k.min(32));
                Ok(())
            }
            CRes::E(c) => Err(Some(c)),
            CRes::P => Err(None),
        }
    }
}

impl Iterator for St {
    type Item = u64;
    fn next(&mut self) -> Option<u64> {
        match self.pop() {
            Ev::Item(x) => {
                self.log.push(Rep::Moved(1));
                Some(x)
            }
            _ => {
                self.log.push(Rep::End);
                None
            }
        }
    }
    fn size_hint(&self) -> (usize, Option<usize>) {
        let k = self.leading_items();
        (k, Some(k))
    }
}
impl DoubleEndedIterator for St {
    fn next_back(&mut self) -> Option<u64> {
        match self.pop() {
            Ev::Item(x) => {
                self.log.push(Rep::Moved(1));
                Some(x + 1_000_000)
            }
            _ => {
                self.log.push(Rep::End);
                None
            }
        }
    }
}
impl ExactSizeIterator for St {
    fn len(&self) -> usize {
        self.leading_items()
    }
}

impl Read for St {
    fn read(&mut self, buf: &mut [u8]) -> io::Result<usize> {
        let d = self.do_read(buf.len() as u64)?;
        buf[..d.len()].copy_from_slice(&d);
        Ok(d.len())
    }
    fn read_vectored(&mut self, bufs: &mut [IoSliceMut<'_>]) -> io::Result<usize> {
        let total: u64 = bufs.iter().map(|b| b.len() as u64).sum();
        let d = self.do_read(total)?;
        let mut off = 0;
        for b in bufs.iter_mut() {
            let k = b.len().min(d.len() - off);
            b[..k].copy_from_slice(&d[off..off + k]);
            off += k;
        }
        Ok(d.len())
    }
    fn read_to_string(&mut self, buf: &mut String) -> io::Result<usize> {
        let e = self.pop();
        match norm(&e) {
            CRes::K(k) => {
                let m = k.min(40);
                for b in pat(self.ctr, m) {
                    buf.push((97 + b % 26) as char);
                }
                self.adv(m);
                self.log.push(Rep::Moved(m));
                Ok(m as usize)
            }
            CRes::E(c) => {
                self.log.push(Rep::Nothing);
                Err(err(c))
            }
            CRes::P => {
                self.log.push(Rep::Nothing);
                Err(err(E_WOULDBLOCK))
            }
        }
    }
    fn read_exact(&mut self, buf: &mut [u8]) -> io::Result<()> {
        let n = buf.len() as u64;
        let e = self.pop();
        if let Ev::PartialErr(k, c) = e {
            let m = k.min(n);
            buf[..m as usize].copy_from_slice(&pat(self.ctr, m));
            self.adv(m);
            self.log.push(Rep::ExactPartial(m));
            return Err(err(c));
        }
        match norm(&e) {
            CRes::K(k) => {
                if n <= k {
                    buf.copy_from_slice(&pat(self.ctr, n));
                    self.adv(n);
                    self.log.push(Rep::Moved(n));
                    Ok(())
                } else {
                    buf[..k as usize].copy_from_slice(&pat(self.ctr, k));
                    self.adv(k);
                    self.log.push(Rep::ExactPartial(k));
                    Err(err(E_EOF))
                }
            }
            CRes::E(c) => {
                self.log.push(Rep::Nothing);
                Err(err(c))
            }
            CRes::P => {
                self.log.push(Rep::Nothing);
                Err(err(E_WOULDBLOCK))
            }
        }
    }
}

impl BufRead for St {
    fn fill_buf(&mut self) -> io::Result<&[u8]> {
        match self.do_fill() {
            Ok(()) => Ok(&self.slice),
            Err(Some(c)) => Err(err(c)),
            Err(None) => Err(err(E_WOULDBLOCK)),
        }
    }
    fn consume(&mut self, amt: usize) {
        self.mix(8);
        self.mix(amt as u64);
        self.adv(amt as u64);
        self.log.push(Rep::Moved(amt as u64));
    }
}

impl Seek for St {
    fn seek(&mut self, f: SeekFrom) -> io::Result<u64> {
        let e = self.pop();
        self.seek_code(f);
        match norm(&e) {
            CRes::K(k) => {
                self.ctr = k;
                self.log.push(Rep::SeekTo(k));
                Ok(k)
            }
            CRes::E(c) => {
                self.log.push(Rep::Nothing);
                Err(err(c))
            }
            CRes::P => {
                self.log.push(Rep::Nothing);
                Err(err(E_WOULDBLOCK))
            }
        }
    }
    fn stream_position(&mut self) -> io::Result<u64> {
        self.log.push(Rep::Nothing);
        Ok(self.ctr)
    }
}

impl Write for St {
    fn write(&mut self, buf: &[u8]) -> io::Result<usize> {
        self.do_write(buf)
    }
    fn write_vectored(&mut self, bufs: &[IoSlice<'_>]) -> io::Result<usize> {
        let all: Vec<u8> = bufs.iter().flat_map(|b| b.iter().copied()).collect();
        self.do_write(&all)
    }
    fn flush(&mut self) -> io::Result<()> {
        self.do_done()
    }
}

impl AsyncWrite for St {
    fn poll_write(mut self: Pin<&mut Self>, _: &mut Context<'_>, buf: &[u8]) -> Poll<io::Result<usize>> {
        if self.peek() == Ev::Pend {
            self.pop();
            self.log.push(Rep::Nothing);
            return Poll::Pending;
        }
        Poll::Ready(self.do_write(buf))
    }
    /// a GENUINELY vectored writer: takes bytes across all slices; the tag in the argument hash
    /// tells "poll_write_vectored was called" from "poll_write was called"
    fn poll_write_vectored(mut self: Pin<&mut Self>, _: &mut Context<'_>, bufs: &[IoSlice<'_>]) -> Poll<io::Result<usize>> {
        self.mix(10);
        if self.peek() == Ev::Pend {
            self.pop();
            self.log.push(Rep::Nothing);
            return Poll::Pending;
        }
        let all: Vec<u8> = bufs.iter().flat_map(|b| b.iter().copied()).collect();
        Poll::Ready(self.do_write(&all))
    }
    fn is_write_vectored(&self) -> bool {
        self.ctr % 2 == 0
    }
    fn poll_flush(mut self: Pin<&mut Self>, _: &mut Context<'_>) -> Poll<io::Result<()>> {
        if self.peek() == Ev::Pend {
            self.pop();
            self.log.push(Rep::Nothing);
            return Poll::Pending;
        }
        Poll::Ready(self.do_done())
    }
    fn poll_shutdown(mut self: Pin<&mut Self>, _: &mut Context<'_>) -> Poll<io::Result<()>> {
        self.mix(7);
        if self.peek() == Ev::Pend {
            self.pop();
            self.log.push(Rep::Nothing);
            return Poll::Pending;
        }
        Poll::Ready(self.do_done())
    }
}

impl AsyncRead for St {
    fn poll_read(mut self: Pin<&mut Self>, _: &mut Context<'_>, buf: &mut ReadBuf<'_>) -> Poll<io::Result<()>> {
        let e = self.pop();
        match e {
            Ev::N(k) | Ev::PartialErr(k, _) => {
                let m = k.min(buf.remaining() as u64);
                buf.put_slice(&pat(self.ctr, m));
                self.adv(m);
                self.log.push(Rep::Moved(m));
                if let Ev::PartialErr(_, c) = e {
                    Poll::Ready(Err(err(c)))
                } else {
                    Poll::Ready(Ok(()))
                }
            }
            Ev::Err(c) => {
                self.log.push(Rep::Moved(0));
                Poll::Ready(Err(err(c)))
            }
            Ev::Pend => {
                self.log.push(Rep::Nothing);
                Poll::Pending
            }
            Ev::Shrink(k) => {
                let f = buf.filled().len();
                let m = (k as usize).min(f);
                buf.set_filled(f - m);
                self.log.push(Rep::Nothing);
                Poll::Ready(Ok(()))
            }
            Ev::Item(_) | Ev::End => {
                self.log.push(Rep::Moved(0));
                Poll::Ready(Ok(()))
            }
        }
    }
}

impl AsyncSeek for St {
    fn start_seek(mut self: Pin<&mut Self>, f: SeekFrom) -> io::Result<()> {
        let e = self.pop();
        self.seek_code(f);
        self.log.push(Rep::Nothing);
        match norm(&e) {
            CRes::K(_) => Ok(()),
            CRes::E(c) => Err(err(c)),
            CRes::P => Err(err(E_WOULDBLOCK)),
        }
    }
    fn poll_complete(mut self: Pin<&mut Self>, _: &mut Context<'_>) -> Poll<io::Result<u64>> {
        let e = self.pop();
        match norm(&e) {
            CRes::K(k) => {
                self.ctr = k;
                self.log.push(Rep::SeekTo(k));
                Poll::Ready(Ok(k))
            }
            CRes::E(c) => {
                self.log.push(Rep::Nothing);
                Poll::Ready(Err(err(c)))
            }
            CRes::P => {
                self.log.push(Rep::Nothing);
                Poll::Pending
            }
        }
    }
}

impl AsyncBufRead for St {
    fn poll_fill_buf(self: Pin<&mut Self>, _: &mut Context<'_>) -> Poll<io::Result<&[u8]>> {
        let this = self.get_mut();
        match this.do_fill() {
            Ok(()) => Poll::Ready(Ok(&this.slice)),
            Err(Some(c)) => Poll::Ready(Err(err(c))),
            Err(None) => Poll::Pending,
        }
    }
    fn consume(mut self: Pin<&mut Self>, amt: usize) {
        self.mix(9);
        self.mix(amt as u64);
        self.adv(amt as u64);
        self.log.push(Rep::Moved(amt as u64));
    }
}

impl Stream for St {
    type Item = u64;
    fn poll_next(mut self: Pin<&mut Self>, _: &mut Context<'_>) -> Poll<Option<u64>> {
        match self.pop() {
            Ev::Item(x) => {
                self.log.push(Rep::Moved(1));
                Poll::Ready(Some(x))
            }
            Ev::Pend => {
                self.log.push(Rep::Nothing);
                Poll::Pending
            }
            _ => {
                self.log.push(Rep::End);
                Poll::Ready(None)
            }
        }
    }
    fn size_hint(&self) -> (usize, Option<usize>) {
        (self.leading_items(), None)
    }
}

/// The object handed to the adaptors: a handle on a shared `St`, so that the harness can still
/// look at the inner state (offset, argument hash, report log) after wrapping.
struct Scripted {
    st: Shared<St>,
    slice: Vec<u8>,
}
impl Scripted {
    fn new(evs: &[Ev]) -> (Scripted, Shared<St>) {
        let st = shared(St::new(evs));
        (Scripted { st: st.clone(), slice: vec![] }, st)
    }
}
macro_rules! g {
    ($s:expr) => {
        $s.st.lock().unwrap()
    };
}
impl Iterator for Scripted {
    type Item = u64;
    fn next(&mut self) -> Option<u64> {
        g!(self).next()
    }
    fn size_hint(&self) -> (usize, Option<usize>) {
        Iterator::size_hint(&*g!(self))
    }
}
impl DoubleEndedIterator for Scripted {
    fn next_back(&mut self) -> Option<u64> {
        g!(self).next_back()
    }
}
impl ExactSizeIterator for Scripted {
    fn len(&self) -> usize {
        ExactSizeIterator::len(&*g!(self))
    }
}
impl Read for Scripted {
    fn read(&mut self, buf: &mut [u8]) -> io::Result<usize> {
        g!(self).read(buf)
    }
    fn read_vectored(&mut self, bufs: &mut [IoSliceMut<'_>]) -> io::Result<usize> {
        g!(self).read_vectored(bufs)
    }
    fn read_to_string(&mut self, buf: &mut String) -> io::Result<usize> {
        g!(self).read_to_string(buf)
    }
    fn read_exact(&mut self, buf: &mut [u8]) -> io::Result<()> {
        g!(self).read_exact(buf)
    }
}
impl BufRead for Scripted {
    fn fill_buf(&mut self) -> io::Result<&[u8]> {
        let v = g!(self).fill_buf().map(|s| s.to_vec())?;
        self.slice = v;
        Ok(&self.slice)
    }
    fn consume(&mut self, amt: usize) {
        BufRead::consume(&mut *g!(self), amt)
    }
}
impl Seek for Scripted {
    fn seek(&mut self, f: SeekFrom) -> io::Result<u64> {
        g!(self).seek(f)
    }
    fn stream_position(&mut self) -> io::Result<u64> {
        g!(self).stream_position()
    }
}
impl Write for Scripted {
    fn write(&mut self, buf: &[u8]) -> io::Result<usize> {
        g!(self).write(buf)
    }
    fn write_vectored(&mut self, bufs: &[IoSlice<'_>]) -> io::Result<usize> {
        g!(self).write_vectored(bufs)
    }
    fn flush(&mut self) -> io::Result<()> {
        g!(self).flush()
    }
}
impl AsyncWrite for Scripted {
    fn poll_write(self: Pin<&mut Self>, cx: &mut Context<'_>, buf: &[u8]) -> Poll<io::Result<usize>> {
        Pin::new(&mut *g!(self)).poll_write(cx, buf)
    }
    fn poll_write_vectored(self: Pin<&mut Self>, cx: &mut Context<'_>, bufs: &[IoSlice<'_>]) -> Poll<io::Result<usize>> {
        Pin::new(&mut *g!(self)).poll_write_vectored(cx, bufs)
    }
    fn is_write_vectored(&self) -> bool {
        AsyncWrite::is_write_vectored(&*g!(self))
    }
    fn poll_flush(self: Pin<&mut Self>, cx: &mut Context<'_>) -> Poll<io::Result<()>> {
        Pin::new(&mut *g!(self)).poll_flush(cx)
    }
    fn poll_shutdown(self: Pin<&mut Self>, cx: &mut Context<'_>) -> Poll<io::Result<()>> {
        Pin::new(&mut *g!(self)).poll_shutdown(cx)
    }
}
impl AsyncRead for Scripted {
    fn poll_read(self: Pin<&mut Self>, cx: &mut Context<'_>, buf: &mut ReadBuf<'_>) -> Poll<io::Result<()>> {
        Pin::new(&mut *g!(self)).poll_read(cx, buf)
    }
}
impl AsyncSeek for Scripted {
    fn start_seek(self: Pin<&mut Self>, f: SeekFrom) -> io::Result<()> {
        Pin::new(&mut *g!(self)).start_seek(f)
    }
    fn poll_complete(self: Pin<&mut Self>, cx: &mut Context<'_>) -> Poll<io::Result<u64>> {
        Pin::new(&mut *g!(self)).poll_complete(cx)
    }
}
impl AsyncBufRead for Scripted {
    fn poll_fill_buf(self: Pin<&mut Self>, cx: &mut Context<'_>) -> Poll<io::Result<&[u8]>> {
        let this = self.get_mut();
        let r = match Pin::new(&mut *g!(this)).poll_fill_buf(cx) {
            Poll::Ready(Ok(s)) => Poll::Ready(Ok(s.to_vec())),
            Poll::Ready(Err(e)) => Poll::Ready(Err(e)),
            Poll::Pending => Poll::Pending,
        };
        match r {
            Poll::Ready(Ok(v)) => {
                this.slice = v;
                Poll::Ready(Ok(&this.slice))
            }
            Poll::Ready(Err(e)) => Poll::Ready(Err(e)),
            Poll::Pending => Poll::Pending,
        }
    }
    fn consume(self: Pin<&mut Self>, amt: usize) {
        AsyncBufRead::consume(Pin::new(&mut *g!(self)), amt)
    }
}
impl Stream for Scripted {
    type Item = u64;
    fn poll_next(self: Pin<&mut Self>, cx: &mut Context<'_>) -> Poll<Option<u64>> {
        Pin::new(&mut *g!(self)).poll_next(cx)
    }
    fn size_hint(&self) -> (usize, Option<usize>) {
        Stream::size_hint(&*g!(self))
    }
}

// ------------------------------------------------------------------ calls and results
#[derive(Clone, Debug)]
enum Call {
    Next,
    NextBack,
    SizeHint,
    Len,
    Read(u64),
    ReadVectored(Vec<u64>),
    ReadToString,
    ReadExact(u64),
    FillBuf,
    Consume(u64),
    Seek(SeekFrom),
    StreamPosition,
    Write(Vec<u8>),
    WriteVectored(Vec<Vec<u8>>),
    Flush,
    PollWrite(Vec<u8>),
    PollWriteVectored(Vec<Vec<u8>>),
    IsWriteVectored,
    PollFlush,
    PollShutdown,
    PollRead(u64, u64),
    StartSeek(SeekFrom),
    PollComplete,
    PollFillBuf,
    AConsume(u64),
    PollNext,
    StreamSizeHint,
}
#[derive(Clone, Debug)]
enum UserOp {
    SetPos(u64),
    Finish,
    Abandon,
    Reset,
    SetLen(u64),
}
#[derive(Clone, Debug)]
enum Step {
    Call(Call),
    User(UserOp),
}

fn cbytes_v(v: &[u8]) -> String {
    clist(v.iter().map(|b| b.to_string()))
}
fn cseek(f: &SeekFrom) -> String {
    match f {
        SeekFrom::Start(n) => format!("(SeekStart {n})"),
        SeekFrom::End(z) => format!("(SeekEnd ({z})%Z)"),
        SeekFrom::Current(z) => format!("(SeekCurrent ({z})%Z)"),
    }
}
impl Call {
    fn kind(&self) -> &'static str {
        match self {
            Call::Next => "next",
            Call::NextBack => "next_back",
            Call::SizeHint => "size_hint",
            Call::Len => "len",
            Call::Read(_) => "read",
            Call::ReadVectored(_) => "read_vectored",
            Call::ReadToString => "read_to_string",
            Call::ReadExact(_) => "read_exact",
            Call::FillBuf => "fill_buf",
            Call::Consume(_) => "consume",
            Call::Seek(_) => "seek",
            Call::StreamPosition => "stream_position",
            Call::Write(_) => "write",
            Call::WriteVectored(_) => "write_vectored",
            Call::Flush => "flush",
            Call::PollWrite(_) => "poll_write",
            Call::PollWriteVectored(_) => "poll_write_vectored",
            Call::IsWriteVectored => "is_write_vectored",
            Call::PollFlush => "poll_flush",
            Call::PollShutdown => "poll_shutdown",
            Call::PollRead(..) => "poll_read",
            Call::StartSeek(_) => "start_seek",
            Call::PollComplete => "poll_complete",
            Call::PollFillBuf => "poll_fill_buf",
            Call::AConsume(_) => "async_consume",
            Call::PollNext => "poll_next",
            Call::StreamSizeHint => "stream_size_hint",
        }
    }
    fn coq(&self) -> String {
        match self {
            Call::Next => "CNext".into(),
            Call::NextBack => "CNextBack".into(),
            Call::SizeHint => "CSizeHint".into(),
            Call::Len => "CLen".into(),
            Call::Read(n) => format!("CRead {n}"),
            Call::ReadVectored(ns) => format!("CReadVectored {}", clist(ns.iter().map(|n| n.to_string()))),
            Call::ReadToString => "CReadToString".into(),
            Call::ReadExact(n) => format!("CReadExact {n}"),
            Call::FillBuf => "CFillBuf".into(),
            Call::Consume(a) => format!("CConsume {a}"),
            Call::Seek(f) => format!("CSeek {}", cseek(f)),
            Call::StreamPosition => "CStreamPosition".into(),
            Call::Write(d) => format!("CWrite {}", cbytes_v(d)),
            Call::WriteVectored(ds) => format!("CWriteVectored {}", clist(ds.iter().map(|d| cbytes_v(d)))),
            Call::Flush => "CFlush".into(),
            Call::PollWrite(d) => format!("CPollWrite {}", cbytes_v(d)),
            Call::PollWriteVectored(ds) => format!("CPollWriteVectored {}", clist(ds.iter().map(|d| cbytes_v(d)))),
            Call::IsWriteVectored => "CIsWriteVectored".into(),
            Call::PollFlush => "CPollFlush".into(),
            Call::PollShutdown => "CPollShutdown".into(),
            Call::PollRead(f, c) => format!("CPollRead {f} {c}"),
            Call::StartSeek(f) => format!("CStartSeek {}", cseek(f)),
            Call::PollComplete => "CPollComplete".into(),
            Call::PollFillBuf => "CPollFillBuf".into(),
            Call::AConsume(a) => format!("CAConsume {a}"),
            Call::PollNext => "CPollNext".into(),
            Call::StreamSizeHint => "CStreamSizeHint".into(),
        }
    }
}
impl UserOp {
    fn coq(&self) -> String {
        match self {
            UserOp::SetPos(p) => format!("USetPos {p}"),
            UserOp::Finish => "UFinish".into(),
            UserOp::Abandon => "UAbandon".into(),
            UserOp::Reset => "UReset".into(),
            UserOp::SetLen(l) => format!("USetLen {l}"),
        }
    }
    fn apply(&self, pb: &ProgressBar) {
        match self {
            UserOp::SetPos(p) => pb.set_position(*p),
            UserOp::Finish => pb.finish(),
            UserOp::Abandon => pb.abandon(),
            UserOp::Reset => pb.reset(),
            UserOp::SetLen(l) => pb.set_length(*l),
        }
    }
}

/// io::Result / Poll flattened: error = raw os code
#[derive(Clone, Debug, PartialEq)]
enum IoR<T> {
    Ok(T),
    Err(i64),
}
#[derive(Clone, Debug, PartialEq)]
enum Pl<T> {
    Ready(T),
    Pending,
}
fn ior<T>(r: io::Result<T>) -> IoR<T> {
    match r {
        Ok(t) => IoR::Ok(t),
        Err(e) => IoR::Err(e.raw_os_error().map(|c| c as i64).unwrap_or(-1)),
    }
}
fn pl<T>(p: Poll<T>) -> Pl<T> {
    match p {
        Poll::Ready(t) => Pl::Ready(t),
        Poll::Pending => Pl::Pending,
    }
}
#[derive(Clone, Debug, PartialEq)]
enum Ret {
    Item(Option<u64>),
    Hint(usize, Option<usize>),
    Len(usize),
    Bool(bool),
    Count(Vec<u8>, IoR<u64>),
    Exact(Vec<u8>, IoR<()>),
    Slice(IoR<Vec<u8>>),
    Unit,
    Num(IoR<u64>),
    Done(IoR<()>),
    PollNum(Pl<IoR<u64>>),
    PollDone(Pl<IoR<()>>),
    PollRead(Vec<u8>, u64, Pl<IoR<()>>),
    PollSlice(Pl<IoR<Vec<u8>>>),
    PollItem(Pl<Option<u64>>),
    /// the buffer handed to the call was modified outside the reported region
    Corrupt(String),
}
fn c_io<T>(r: &IoR<T>, f: impl Fn(&T) -> String) -> String {
    match r {
        IoR::Ok(t) => format!("(IoOk {})", f(t)),
        IoR::Err(c) => format!("(IoErr {})", if *c < 0 { 4294967295 } else { *c }),
    }
}
fn c_pl<T>(r: &Pl<T>, f: impl Fn(&T) -> String) -> String {
    match r {
        Pl::Ready(t) => format!("(Ready {})", f(t)),
        Pl::Pending => "Pending".into(),
    }
}
fn tt(_: &()) -> String {
    "tt".into()
}
fn num(n: &u64) -> String {
    n.to_string()
}
impl Ret {
    fn coq(&self) -> String {
        match self {
            Ret::Item(o) => format!("RItem {}", copt(o.map(|x| x.to_string()))),
            Ret::Hint(a, b) => format!("RHint ({a}, {})", copt(b.map(|x| x.to_string()))),
            Ret::Len(n) => format!("RLen {n}"),
            Ret::Bool(x) => format!("RBool {}", cbool(*x)),
            Ret::Count(d, r) => format!("RCount {} {}", cbytes_v(d), c_io(r, num)),
            Ret::Exact(d, r) => format!("RExact {} {}", cbytes_v(d), c_io(r, tt)),
            Ret::Slice(r) => format!("RSlice {}", c_io(r, |v| cbytes_v(v))),
            Ret::Unit => "RUnit".into(),
            Ret::Num(r) => format!("RNum {}", c_io(r, num)),
            Ret::Done(r) => format!("RDone {}", c_io(r, tt)),
            Ret::PollNum(r) => format!("RPollNum {}", c_pl(r, |x| c_io(x, num))),
            Ret::PollDone(r) => format!("RPollDone {}", c_pl(r, |x| c_io(x, tt))),
            Ret::PollRead(d, f, r) => format!("RPollRead {} {f} {}", cbytes_v(d), c_pl(r, |x| c_io(x, tt))),
            Ret::PollSlice(r) => format!("RPollSlice {}", c_pl(r, |x| c_io(x, |v| cbytes_v(v)))),
            Ret::PollItem(r) => format!("RPollItem {}", c_pl(r, |o| copt(o.map(|x| x.to_string())))),
            Ret::Corrupt(_) => "RUnit".into(),
        }
    }
}

fn noop_waker() -> Waker {
    fn clone(_: *const ()) -> RawWaker {
        RawWaker::new(std::ptr::null(), &VT)
    }
    fn noop(_: *const ()) {}
    static VT: RawWakerVTable = RawWakerVTable::new(clone, noop, noop, noop);
    unsafe { Waker::from_raw(RawWaker::new(std::ptr::null(), &VT)) }
}

const SENT: u8 = 255; // never produced by the pattern (values < 251)
const PRE: u8 = 254; // content of the already-filled part of a ReadBuf

/// the bytes of `buf` up to the first sentinel; Err if anything after that is not the sentinel
fn taken(buf: &[u8]) -> Result<Vec<u8>, String> {
    let k = buf.iter().position(|b| *b == SENT).unwrap_or(buf.len());
    if buf[k..].iter().any(|b| *b != SENT) {
        return Err(format!("buffer modified beyond the transferred prefix: {buf:?}"));
    }
    Ok(buf[..k].to_vec())
}

/// One call, on the bare object or on the adaptor – the SAME code for both.
fn do_call<T>(t: &mut T, c: &Call) -> Ret
where
    T: Iterator<Item = u64>
        + DoubleEndedIterator
        + ExactSizeIterator
        + Read
        + BufRead
        + Seek
        + Write
        + AsyncRead
        + AsyncWrite
        + AsyncSeek
        + AsyncBufRead
        + Stream<Item = u64>
        + Unpin,
{
    let w = noop_waker();
    let mut cx = Context::from_waker(&w);
    match c {
        Call::Next => Ret::Item(Iterator::next(t)),
        Call::NextBack => Ret::Item(DoubleEndedIterator::next_back(t)),
        Call::SizeHint => {
            let (a, b) = Iterator::size_hint(t);
            Ret::Hint(a, b)
        }
        Call::Len => Ret::Len(ExactSizeIterator::len(t)),
        Call::Read(n) => {
            let mut buf = vec![SENT; *n as usize];
            let r = ior(Read::read(t, &mut buf).map(|x| x as u64));
            match taken(&buf) {
                Ok(d) => Ret::Count(d, r),
                Err(e) => Ret::Corrupt(e),
            }
        }
        Call::ReadVectored(ns) => {
            let mut store: Vec<Vec<u8>> = ns.iter().map(|n| vec![SENT; *n as usize]).collect();
            let r = {
                let mut bufs: Vec<IoSliceMut<'_>> = store.iter_mut().map(|v| IoSliceMut::new(v)).collect();
                ior(Read::read_vectored(t, &mut bufs).map(|x| x as u64))
            };
            let mut d = vec![];
            for v in &store {
                match taken(v) {
                    Ok(x) => d.extend(x),
                    Err(e) => return Ret::Corrupt(e),
                }
            }
            Ret::Count(d, r)
        }
        Call::ReadToString => {
            let mut s = String::from("xy");
            let r = ior(Read::read_to_string(t, &mut s).map(|x| x as u64));
            if !s.starts_with("xy") {
                return Ret::Corrupt(format!("string prefix lost: {s:?}"));
            }
            Ret::Count(s.as_bytes()[2..].to_vec(), r)
        }
        Call::ReadExact(n) => {
            let mut buf = vec![SENT; *n as usize];
            let r = ior(Read::read_exact(t, &mut buf));
            match taken(&buf) {
                Ok(d) => Ret::Exact(d, r),
                Err(e) => Ret::Corrupt(e),
            }
        }
        Call::FillBuf => Ret::Slice(ior(BufRead::fill_buf(t).map(|s| s.to_vec()))),
        Call::Consume(a) => {
            BufRead::consume(t, *a as usize);
            Ret::Unit
        }
        Call::Seek(f) => Ret::Num(ior(Seek::seek(t, *f))),
        Call::StreamPosition => Ret::Num(ior(Seek::stream_position(t))),
        Call::Write(d) => Ret::Num(ior(Write::write(t, d).map(|x| x as u64))),
        Call::WriteVectored(ds) => {
            let bufs: Vec<IoSlice<'_>> = ds.iter().map(|d| IoSlice::new(d)).collect();
            Ret::Num(ior(Write::write_vectored(t, &bufs).map(|x| x as u64)))
        }
        Call::Flush => Ret::Done(ior(Write::flush(t))),
        Call::PollWrite(d) => Ret::PollNum(pl(AsyncWrite::poll_write(Pin::new(t), &mut cx, d).map(|r| ior(r.map(|x| x as u64))))),
        Call::PollWriteVectored(ds) => {
            let bufs: Vec<IoSlice<'_>> = ds.iter().map(|d| IoSlice::new(d)).collect();
            Ret::PollNum(pl(AsyncWrite::poll_write_vectored(Pin::new(t), &mut cx, &bufs).map(|r| ior(r.map(|x| x as u64)))))
        }
        Call::IsWriteVectored => Ret::Bool(AsyncWrite::is_write_vectored(t)),
        Call::PollFlush => Ret::PollDone(pl(AsyncWrite::poll_flush(Pin::new(t), &mut cx).map(ior))),
        Call::PollShutdown => Ret::PollDone(pl(AsyncWrite::poll_shutdown(Pin::new(t), &mut cx).map(ior))),
        Call::PollRead(filled, cap) => {
            let mut store = vec![SENT; *cap as usize];
            let mut rb = ReadBuf::new(&mut store);
            rb.put_slice(&vec![PRE; *filled as usize]);
            let r = pl(AsyncRead::poll_read(Pin::new(t), &mut cx, &mut rb).map(ior));
            let f2 = rb.filled().len() as u64;
            let d = if f2 > *filled { rb.filled()[*filled as usize..].to_vec() } else { vec![] };
            let keep = (f2.min(*filled)) as usize;
            if rb.filled()[..keep].iter().any(|b| *b != PRE) {
                return Ret::Corrupt("already-filled part of the ReadBuf modified".into());
            }
            Ret::PollRead(d, f2, r)
        }
        Call::StartSeek(f) => Ret::Done(ior(AsyncSeek::start_seek(Pin::new(t), *f))),
        Call::PollComplete => Ret::PollNum(pl(AsyncSeek::poll_complete(Pin::new(t), &mut cx).map(ior))),
        Call::PollFillBuf => Ret::PollSlice(pl(AsyncBufRead::poll_fill_buf(Pin::new(t), &mut cx).map(|r| ior(r.map(|s| s.to_vec()))))),
        Call::AConsume(a) => {
            AsyncBufRead::consume(Pin::new(t), *a as usize);
            Ret::Unit
        }
        Call::PollNext => Ret::PollItem(pl(Stream::poll_next(Pin::new(t), &mut cx))),
        Call::StreamSizeHint => {
            let (a, b) = Stream::size_hint(t);
            Ret::Hint(a, b)
        }
    }
}

// ------------------------------------------------------------------ bar configuration + independent expectation
#[derive(Clone, Debug)]
struct BarCfg {
    len: Option<u64>,
    pos0: u64,
    fin: u8, // 0 AndLeave 1 WithMessage 2 AndClear 3 Abandon 4 AbandonWithMessage
    msg: String,
}
impl BarCfg {
    fn finish(&self) -> ProgressFinish {
        match self.fin {
            0 => ProgressFinish::AndLeave,
            1 => ProgressFinish::WithMessage(self.msg.clone().into()),
            2 => ProgressFinish::AndClear,
            3 => ProgressFinish::Abandon,
            _ => ProgressFinish::AbandonWithMessage(self.msg.clone().into()),
        }
    }
    fn coq_finish(&self) -> String {
        match self.fin {
            0 => "AndLeave".into(),
            1 => format!("(WithMessage {})", cstr(&self.msg)),
            2 => "AndClear".into(),
            3 => "Abandon".into(),
            _ => format!("(AbandonWithMessage {})", cstr(&self.msg)),
        }
    }
    fn bar(&self) -> ProgressBar {
        ProgressBar::with_draw_target(self.len, ProgressDrawTarget::hidden())
            .with_position(self.pos0)
            .with_finish(self.finish())
    }
    fn desc(&self) -> String {
        format!("len={:?} pos0={} on_finish={}", self.len, self.pos0, self.coq_finish())
    }
}

/// What the PROPERTY says the getters must show – tracked from what the inner object reported.
#[derive(Clone, Debug, PartialEq)]
struct Expect {
    pos: u64,
    fin: bool,
    msg: String,
    len: Option<u64>,
}
impl Expect {
    fn new(cfg: &BarCfg) -> Self {
        Expect { pos: cfg.pos0, fin: false, msg: String::new(), len: cfg.len }
    }
    /// "finishes the bar according to its finish behaviour"
    fn finish(&mut self, cfg: &BarCfg) {
        self.fin = true;
        if cfg.fin <= 2 {
            if let Some(l) = self.len {
                self.pos = l;
            }
        }
        if cfg.fin == 1 || cfg.fin == 4 {
            self.msg = cfg.msg.clone();
        }
    }
    fn observed(pb: &ProgressBar) -> Self {
        Expect { pos: pb.position(), fin: pb.is_finished(), msg: pb.message(), len: pb.length() }
    }
}

/// The counting clause of the PROPERTY TEXT applied to what the inner object reported during one
/// adaptor call: "the position advances by exactly the number of items or bytes actually
/// transferred (a seek sets it to the new offset), and exhausting an iterator finishes the bar
/// according to its finish behaviour" - one rule for blocking iterators and streams; a bar that is
/// already finished has nothing left to finish.  Written from the text, not from iter.rs; the
/// readings it needs are the Interpretations I1-I3 of docs/C17.md.
fn apply_reps(e: &Expect, reps: &[Rep], cfg: &BarCfg) -> Expect {
    let mut a = e.clone();
    for r in reps {
        match r {
            Rep::Moved(k) => a.pos = a.pos.wrapping_add(*k),
            Rep::SeekTo(p) => a.pos = *p,
            Rep::End => {
                if !a.fin {
                    a.finish(cfg)
                }
            }
            // I1: the call reported Err and nothing else; see the doc comment of Rep::ExactPartial
            Rep::Nothing | Rep::ExactPartial(_) => {}
        }
    }
    a
}

fn run_seq(s: &mut Session, fam: &str, cfg: &BarCfg, script: &[Ev], steps: &[Step]) {
    let desc = format!(
        "seq family={fam} {} script=[{}] steps=[{}]",
        cfg.desc(),
        script.iter().map(|e| e.coq()).collect::<Vec<_>>().join("; "),
        steps
            .iter()
            .map(|st| match st {
                Step::Call(c) => c.coq(),
                Step::User(u) => u.coq(),
            })
            .collect::<Vec<_>>()
            .join("; ")
    );
    // the unwrapped object
    let (mut bare, bare_st) = Scripted::new(script);
    // the adaptor around an identical object
    let pb = cfg.bar();
    let (inner, st) = Scripted::new(script);
    let mut w = pb.wrap_read(inner);
    let mut exp = Expect::new(cfg);
    let mut coq_steps = vec![];
    let mut panicked = false;
    let mut diverged = false;
    for (i, stp) in steps.iter().enumerate() {
        if diverged {
            break;
        }
        match stp {
            Step::User(u) => {
                if let Err(e) = catch(|| u.apply(&pb)) {
                    s.fail("panic-user-op", format!("step #{i} {} panicked: {e}", u.coq()), desc.clone());
                    return;
                }
                match u {
                    UserOp::SetPos(p) => exp.pos = *p,
                    UserOp::Finish => {
                        exp.fin = true;
                        if let Some(l) = exp.len {
                            exp.pos = l
                        }
                    }
                    UserOp::Abandon => exp.fin = true,
                    UserOp::Reset => {
                        exp.pos = 0;
                        exp.fin = false
                    }
                    UserOp::SetLen(l) => exp.len = Some(*l),
                }
                s.count("user-op");
                coq_steps.push(format!("(SUser ({}), (ObsUser, {}, {}))", u.coq(), pb.position(), cbool(pb.is_finished())));
            }
            Step::Call(c) => {
                let kind = c.kind();
                s.count(&format!("call:{kind}"));
                let before = st.lock().unwrap().log.len();
                let peek = st.lock().unwrap().peek();
                let bare_before = bare_st.lock().unwrap().log.len();
                let want = do_call(&mut bare, c);
                let bare_reps: Vec<Rep> = bare_st.lock().unwrap().log[bare_before..].to_vec();
                let got = match catch(|| do_call(&mut w, c)) {
                    Ok(r) => r,
                    Err(e) => {
                        // the adaptor must not add a panic of its own, whatever the inner object does.
                        // Class (defect fixed by c811d79) = a predicate on the input: poll_read on an inner reader
                        // that shrinks a non-empty filled region
                        let shrink = matches!((c, &peek), (Call::PollRead(f, _), Ev::Shrink(k)) if *f > 0 && *k > 0);
                        if shrink {
                            s.fail(
                                "poll-read-filled-shrunk-underflow",
                                format!("step #{i} {}: the bare object returned {want:?}; the adaptor panicked: {e}", c.coq()),
                                desc.clone(),
                            );
                        } else {
                            s.fail(&format!("panic-{kind}"), format!("step #{i} {} panicked: {e}", c.coq()), desc.clone());
                        }
                        coq_steps.push(format!("(SCall ({}), (ObsPanic, {}, {}))", c.coq(), pb.position(), cbool(pb.is_finished())));
                        panicked = true;
                        break;
                    }
                };
                if let Ret::Corrupt(e) = &got {
                    s.fail(&format!("transparent-{kind}"), format!("step #{i} {}: {e}", c.coq()), desc.clone());
                    return;
                }
                // --- transparency: same result as the bare object, same calls reaching the inner object
                let reps: Vec<Rep> = st.lock().unwrap().log[before..].to_vec();
                let inner_now = {
                    let g = st.lock().unwrap();
                    (g.ctr, g.sink)
                };
                let bare_now = {
                    let g = bare_st.lock().unwrap();
                    (g.ctr, g.sink)
                };
                let vectored = matches!(c, Call::PollWriteVectored(_) | Call::IsWriteVectored);
                if vectored {
                    // class of the defect fixed by 2747e49: the call is one of the two tokio AsyncWrite methods the adaptor
                    // did not forward before that fix, and what the caller / the inner object saw differs from the bare run
                    if got != want || reps != bare_reps || inner_now != bare_now {
                        s.fail(
                            "async-write-vectored-not-forwarded",
                            format!(
                                "step #{i} {}: adaptor returned {got:?}, inner calls {reps:?}, inner (offset, arghash) {inner_now:?}; bare object {want:?}, {bare_reps:?}, {bare_now:?}",
                                c.coq()
                            ),
                            desc.clone(),
                        );
                        // the two inner objects are out of step from here on
                        diverged = inner_now != bare_now || reps != bare_reps;
                    }
                } else if got != want {
                    match c {
                        // class of the defect fixed by 7fc986e: the call is Stream::size_hint and the results differ
                        Call::StreamSizeHint => s.fail(
                            "stream-size-hint-not-forwarded",
                            format!("step #{i}: Stream::size_hint() through the adaptor {got:?}, bare object {want:?}"),
                            desc.clone(),
                        ),
                        Call::SizeHint => s.fail(
                            "iter-size-hint-not-forwarded",
                            format!("step #{i}: size_hint() through the adaptor {got:?}, bare object {want:?}"),
                            desc.clone(),
                        ),
                        _ => {
                            s.fail(
                                &format!("transparent-{kind}"),
                                format!("step #{i} {}: adaptor returned {got:?}, bare object {want:?}", c.coq()),
                                desc.clone(),
                            );
                            // the two objects are out of step from here on: everything later would
                            // be a consequence of this difference
                            diverged = true;
                        }
                    }
                }
                if !vectored && reps != bare_reps && !diverged {
                    s.fail(
                        &format!("transparent-{kind}"),
                        format!("step #{i} {}: the inner object behind the adaptor was called {reps:?}, the bare one {bare_reps:?}", c.coq()),
                        desc.clone(),
                    );
                    diverged = true;
                }
                // --- exact counting, from what the inner object reported during this call
                for r in &reps {
                    match r {
                        Rep::ExactPartial(k) if *k > 0 => s.count("interpretation-I1:read_exact-Err-after-partial-transfer-counts-0"),
                        Rep::Moved(k) if *k > 0 && matches!(got, Ret::PollRead(_, _, Pl::Ready(IoR::Err(_)))) => {
                            s.count("poll_read-Ready(Err)-after-bytes-counts-them")
                        }
                        Rep::Moved(0) => s.count("moved:0"),
                        Rep::Moved(_) => s.count("moved:>0"),
                        Rep::Nothing => s.count("moved:none(err/pending/query)"),
                        _ => {}
                    }
                }
                let was_finished = exp.fin;
                let a = apply_reps(&exp, &reps, cfg);
                let obs = Expect::observed(&pb);
                if a == obs {
                    exp = a;
                } else {
                    let detail = format!("step #{i} {}: inner reported {reps:?}; getters show {obs:?}, property defines {a:?}", c.coq());
                    // class of the defect fixed by 3a319c2: a Stream reported Ready(None) through an adaptor whose bar was
                    // already finished before the call, and the getters changed
                    let stream_end_again = matches!(c, Call::PollNext) && reps == [Rep::End] && was_finished;
                    // the c811d79 defect in builds without overflow checks: no panic, the position moved back
                    let shrink = matches!((c, &peek), (Call::PollRead(f, _), Ev::Shrink(k)) if *f > 0 && *k > 0);
                    if stream_end_again {
                        s.fail("stream-end-refinishes-finished-bar", detail, desc.clone());
                    } else if shrink {
                        s.fail("poll-read-filled-shrunk-underflow", detail, desc.clone());
                    } else {
                        let class = if a.pos != obs.pos && a.fin == obs.fin {
                            match c {
                                Call::PollComplete => "async-seek-position".to_string(),
                                _ => format!("count-{kind}"),
                            }
                        } else {
                            format!("finish-on-exhaustion-{kind}")
                        };
                        s.fail(&class, detail, desc.clone());
                    }
                    exp = obs.clone();
                }
                coq_steps.push(format!(
                    "(SCall ({}), (ObsRet ({}), {}, {}))",
                    c.coq(),
                    got.coq(),
                    pb.position(),
                    cbool(pb.is_finished())
                ));
            }
        }
    }
    // --- transparency of the inner object's own state: same arguments, same number of calls
    let (a, b) = (st.lock().unwrap().clone(), bare_st.lock().unwrap().clone());
    if !panicked && !diverged && (a.ctr != b.ctr || a.sink != b.sink || a.evs != b.evs || a.log != b.log) {
        s.fail(
            "transparent-inner-state",
            format!(
                "inner object behind the adaptor: offset={} arghash={} log={:?}; bare: offset={} arghash={} log={:?}",
                a.ctr, a.sink, a.log, b.ctr, b.sink, b.log
            ),
            desc.clone(),
        );
    }
    s.count(&format!("family:{fam}"));
    s.count(&format!("on_finish:{}", cfg.fin));
    s.count(if cfg.len.is_some() { "len:some" } else { "len:none" });
    if cfg.pos0 > u64::MAX - 1000 {
        s.count("pos0:near-wrap");
    }
    let coq = format!(
        "CaseSeq {} {} {} {} {} {} {} {} {}",
        copt(cfg.len.map(|x| x.to_string())),
        cfg.pos0,
        cfg.coq_finish(),
        clist(script.iter().map(|e| format!("{}", e.coq()))),
        clist(coq_steps),
        cstr(&pb.message()),
        a.sink,
        a.ctr,
        copt(pb.length().map(|x| x.to_string()))
    );
    s.case(coq, desc, steps.len() >= 2);
}

// ------------------------------------------------------------------ generators
fn small_or_edge(r: &mut Rng, n: u64) -> u64 {
    // a transfer count relative to a buffer of n bytes: 0, short, exact, over, huge
    match r.below(10) {
        0 => 0,
        1..=4 => r.below(n + 1),
        5..=6 => n,
        7 => n + 1 + r.below(5),
        8 => r.below(40),
        _ => *r.pick(&[u64::MAX, u64::MAX - 1, 1 << 32, (1 << 63) + 5]),
    }
}
fn offset(r: &mut Rng) -> u64 {
    match r.below(6) {
        0 => 0,
        1..=2 => r.below(100),
        3 => *r.pick(&[u64::MAX, u64::MAX - 1, 1 << 63, (1 << 32) - 1, 1 << 32]),
        4 => r.next(),
        _ => r.below(1 << 20),
    }
}
fn errc(r: &mut Rng) -> u64 {
    *r.pick(&[4u64, 5, 11, 32, 104, 110, 28])
}
fn seekfrom(r: &mut Rng) -> SeekFrom {
    let z = match r.below(5) {
        0 => 0i64,
        1 => -(r.below(50) as i64),
        2 => r.below(50) as i64,
        3 => *r.pick(&[i64::MIN, i64::MAX, -1, 1]),
        _ => r.next() as i64,
    };
    match r.below(3) {
        0 => SeekFrom::Start(offset(r)),
        1 => SeekFrom::End(z),
        _ => SeekFrom::Current(z),
    }
}
fn bytes(r: &mut Rng) -> Vec<u8> {
    let n = if r.chance(1, 8) { 0 } else { r.below(14) };
    (0..n).map(|_| r.below(256) as u8).collect()
}
fn buflen(r: &mut Rng) -> u64 {
    match r.below(8) {
        0 => 0,
        1 => 1,
        7 => r.range(13, 40),
        _ => r.range(2, 12),
    }
}

const FAMILIES: [&str; 11] = ["iter", "read", "bufread", "seek", "write", "aread", "abufread", "awrite", "aseek", "stream", "mixed"];

fn gen_call(r: &mut Rng, fam: &str) -> Call {
    let fam = if fam == "mixed" { *r.pick(&FAMILIES[..10]) } else { fam };
    match fam {
        "iter" => match r.below(10) {
            0..=5 => Call::Next,
            6..=7 => Call::NextBack,
            8 => Call::SizeHint,
            _ => Call::Len,
        },
        "read" => match r.below(10) {
            0..=3 => Call::Read(buflen(r)),
            4..=5 => Call::ReadVectored((0..r.below(4)).map(|_| buflen(r).min(9)).collect()),
            6 => Call::ReadToString,
            _ => Call::ReadExact(buflen(r)),
        },
        "bufread" => match r.below(10) {
            0..=4 => Call::FillBuf,
            5..=8 => Call::Consume(if r.chance(1, 12) { offset(r) } else { r.below(12) }),
            _ => Call::Read(buflen(r)),
        },
        "seek" => match r.below(10) {
            0..=5 => Call::Seek(seekfrom(r)),
            6..=7 => Call::StreamPosition,
            8 => Call::Read(buflen(r)),
            _ => Call::Write(bytes(r)),
        },
        "write" => match r.below(10) {
            0..=4 => Call::Write(bytes(r)),
            5..=7 => Call::WriteVectored((0..r.below(4)).map(|_| bytes(r)).collect()),
            _ => Call::Flush,
        },
        "aread" => {
            let cap = buflen(r);
            let filled = if r.chance(1, 3) { 0 } else { r.below(cap + 1) };
            Call::PollRead(filled, cap)
        }
        "abufread" => match r.below(10) {
            0..=4 => Call::PollFillBuf,
            5..=8 => Call::AConsume(if r.chance(1, 12) { offset(r) } else { r.below(12) }),
            _ => Call::PollRead(0, buflen(r)),
        },
        "awrite" => match r.below(14) {
            0..=4 => Call::PollWrite(bytes(r)),
            5..=8 => Call::PollWriteVectored((0..r.below(4)).map(|_| bytes(r)).collect()),
            9 => Call::IsWriteVectored,
            10..=11 => Call::PollFlush,
            _ => Call::PollShutdown,
        },
        "aseek" => match r.below(10) {
            0..=3 => Call::StartSeek(seekfrom(r)),
            4..=8 => Call::PollComplete,
            _ => Call::PollRead(0, buflen(r)),
        },
        _ => match r.below(10) {
            0..=8 => Call::PollNext,
            _ => Call::StreamSizeHint,
        },
    }
}

/// the script event the next inner call will pop, biased to what that call understands
fn gen_ev(r: &mut Rng, c: &Call) -> Option<Ev> {
    let wild = r.chance(1, 14);
    let any = |r: &mut Rng| match r.below(7) {
        0 => Ev::N(r.below(20)),
        1 => Ev::Err(errc(r)),
        2 => Ev::Pend,
        3 => Ev::Item(r.below(1000)),
        4 => Ev::End,
        5 => Ev::PartialErr(r.below(10), errc(r)),
        _ => Ev::Shrink(r.below(4)),
    };
    let count = |r: &mut Rng, n: u64, asyn: bool| match r.below(20) {
        0..=12 => Ev::N(small_or_edge(r, n)),
        13..=14 => Ev::Err(errc(r)),
        15..=16 => Ev::PartialErr(small_or_edge(r, n).min(64), errc(r)),
        17..=18 => {
            if asyn || r.chance(1, 3) {
                Ev::Pend
            } else {
                Ev::N(n)
            }
        }
        _ => Ev::End,
    };
    Some(match c {
        Call::SizeHint | Call::Len | Call::StreamSizeHint | Call::Consume(_) | Call::AConsume(_) | Call::StreamPosition | Call::IsWriteVectored => return None,
        _ if wild => any(r),
        Call::Next | Call::NextBack => match r.below(10) {
            0..=6 => Ev::Item(r.below(1000)),
            7..=8 => Ev::End,
            _ => Ev::N(3),
        },
        Call::PollNext => match r.below(10) {
            0..=5 => Ev::Item(r.below(1000)),
            6..=7 => Ev::End,
            _ => Ev::Pend,
        },
        Call::Read(n) | Call::ReadExact(n) => count(r, *n, false),
        Call::ReadVectored(ns) => count(r, ns.iter().sum(), false),
        Call::ReadToString => count(r, 40, false),
        Call::FillBuf => count(r, 32, false),
        Call::PollFillBuf => count(r, 32, true),
        Call::Write(d) => count(r, d.len() as u64, false),
        Call::PollWrite(d) => count(r, d.len() as u64, true),
        Call::WriteVectored(ds) => count(r, ds.iter().map(|d| d.len() as u64).sum(), false),
        Call::PollWriteVectored(ds) => count(r, ds.iter().map(|d| d.len() as u64).sum(), true),
        Call::PollRead(f, cap) => {
            if r.chance(1, 25) {
                Ev::Shrink(r.below(3))
            } else {
                count(r, cap - f, true)
            }
        }
        Call::Flush | Call::StartSeek(_) => match r.below(6) {
            0 => Ev::Err(errc(r)),
            1 => Ev::Pend,
            _ => Ev::N(0),
        },
        Call::PollFlush | Call::PollShutdown => match r.below(6) {
            0 => Ev::Err(errc(r)),
            1..=2 => Ev::Pend,
            _ => Ev::N(0),
        },
        Call::Seek(_) | Call::PollComplete => match r.below(10) {
            0..=6 => Ev::N(offset(r)),
            7 => Ev::Err(errc(r)),
            _ => Ev::Pend,
        },
    })
}

fn gen_cfg(r: &mut Rng) -> BarCfg {
    BarCfg {
        len: match r.below(5) {
            0 => None,
            1 => Some(offset(r)),
            _ => Some(r.below(60)),
        },
        pos0: match r.below(6) {
            0 => r.below(30),
            1 => u64::MAX - r.below(12),
            _ => 0,
        },
        fin: r.below(5) as u8,
        msg: r.pick(&["done", "", "ok \u{e9}\u{4e16}", "abandoned!"]).to_string(),
    }
}

fn gen_seq(r: &mut Rng) -> (&'static str, BarCfg, Vec<Ev>, Vec<Step>) {
    let fam = *r.pick(&FAMILIES);
    let cfg = gen_cfg(r);
    let n = if r.chance(1, 10) { r.below(3) } else { r.range(2, 14) };
    let mut script = vec![];
    let mut steps = vec![];
    for _ in 0..n {
        if r.chance(1, 12) {
            steps.push(Step::User(match r.below(6) {
                0..=1 => UserOp::SetPos(offset(r)),
                2 => UserOp::Finish,
                3 => UserOp::Abandon,
                4 => UserOp::Reset,
                _ => UserOp::SetLen(r.below(60)),
            }));
            continue;
        }
        let c = gen_call(r, fam);
        if let Some(e) = gen_ev(r, &c) {
            script.push(e);
        }
        steps.push(Step::Call(c));
    }
    // trailing events: visible to size_hint()/len(); some scripts end early instead
    if r.chance(1, 4) {
        for _ in 0..r.below(4) {
            script.push(Ev::Item(r.below(1000)));
        }
    } else if r.chance(1, 6) && !script.is_empty() {
        let k = r.below(script.len() as u64) as usize;
        script.truncate(k);
    }
    (fam, cfg, script, steps)
}

// ------------------------------------------------------------------ std's default methods as callers (oracle only)
/// read_to_end / io::copy / write_all / read_until / nth / count / last / fold / rev ... are programs
/// over the calls above (C17_programs): run them for real on the adaptor and on the bare object.
fn run_composite(s: &mut Session, r: &mut Rng) {
    let cfg = gen_cfg(r);
    let which = r.below(11);
    let name = ["read_to_end", "io::copy(reader)", "write_all", "read_until", "nth", "count", "last", "rev().collect", "fold+by_ref().take", "io::copy(writer)", "poll_write_vectored+is_write_vectored"][which as usize];
    // an honest finite script: after its end the object reports EOF / None / Ok(0) forever
    let n = r.range(0, 12);
    let mut script = vec![];
    for _ in 0..n {
        script.push(match which {
            10 => match r.below(6) {
                0 => Ev::Pend,
                1 => Ev::Err(errc(r)),
                _ => Ev::N(r.below(30)),
            },
            4..=8 => {
                if r.chance(1, 9) {
                    Ev::End
                } else {
                    Ev::Item(r.below(1000))
                }
            }
            _ => match r.below(12) {
                0 => Ev::Err(4), // Interrupted: std retries
                1 => Ev::Err(errc(r)),
                2 => Ev::N(0),
                _ => Ev::N(r.range(1, 30)),
            },
        });
    }
    let data = (0..r.below(40)).map(|_| r.below(256) as u8).collect::<Vec<u8>>();
    let k = r.below(6) as usize;
    let desc = format!(
        "composite {name} {} script=[{}] data_len={} k={k}",
        cfg.desc(),
        script.iter().map(|e| e.coq()).collect::<Vec<_>>().join("; "),
        data.len()
    );
    fn go<T>(t: &mut T, which: u64, data: &[u8], k: usize) -> String
    where
        T: Iterator<Item = u64> + DoubleEndedIterator + Read + BufRead + Write + AsyncWrite + Unpin,
    {
        match which {
            10 => {
                // the scripted writer is genuinely vectored
                let w = noop_waker();
                let mut cx = Context::from_waker(&w);
                let (a, b) = data.split_at(data.len().min(k));
                let bufs = [IoSlice::new(&[]), IoSlice::new(a), IoSlice::new(b)];
                let mut out = vec![];
                for _ in 0..3 {
                    out.push(pl(AsyncWrite::poll_write_vectored(Pin::new(&mut *t), &mut cx, &bufs).map(|r| ior(r.map(|x| x as u64)))));
                }
                format!("{out:?} is_write_vectored={}", AsyncWrite::is_write_vectored(t))
            }
            0 => {
                let mut v = vec![];
                let r = ior(Read::read_to_end(t, &mut v).map(|x| x as u64));
                format!("{r:?} {v:?}")
            }
            1 => {
                let mut v: Vec<u8> = vec![];
                let r = ior(io::copy(&mut Read::by_ref(t), &mut v));
                format!("{r:?} {v:?}")
            }
            2 => format!("{:?}", ior(Write::write_all(t, data))),
            3 => {
                let mut v = vec![];
                let r = ior(BufRead::read_until(t, 7, &mut v).map(|x| x as u64));
                format!("{r:?} {v:?}")
            }
            4 => format!("{:?}", Iterator::nth(t, k)),
            5 => format!("{:?}", Iterator::count(Iterator::by_ref(t))),
            6 => format!("{:?}", Iterator::last(Iterator::by_ref(t))),
            7 => format!("{:?}", Iterator::by_ref(t).rev().collect::<Vec<_>>()),
            8 => {
                let a: Vec<u64> = Iterator::take(Iterator::by_ref(t), k).collect();
                let b = Iterator::by_ref(t).fold(0u64, |x, y| x.wrapping_mul(31).wrapping_add(y));
                format!("{a:?} {b}")
            }
            _ => {
                let mut src: &[u8] = data;
                format!("{:?}", ior(io::copy(&mut src, &mut Write::by_ref(t))))
            }
        }
    }
    let (mut bare, bare_st) = Scripted::new(&script);
    let want = go(&mut bare, which, &data, k);
    let pb = cfg.bar();
    let (inner, st) = Scripted::new(&script);
    let mut w = pb.wrap_read(inner);
    let got = match catch(|| go(&mut w, which, &data, k)) {
        Ok(g) => g,
        Err(e) => {
            s.fail(&format!("panic-composite-{name}"), e, desc.clone());
            return;
        }
    };
    let (a, b) = (st.lock().unwrap().clone(), bare_st.lock().unwrap().clone());
    let differs = got != want || a.ctr != b.ctr || a.sink != b.sink || a.log != b.log;
    if differs && which == 10 {
        // only poll_write_vectored / is_write_vectored are called here: the 2747e49 class
        s.fail(
            "async-write-vectored-not-forwarded",
            format!("adaptor: {got}, inner calls {:?}; bare: {want}, inner calls {:?}", a.log, b.log),
            desc.clone(),
        );
    } else if got != want {
        s.fail(&format!("transparent-composite-{name}"), format!("adaptor: {got}; bare: {want}"), desc.clone());
    } else if differs {
        s.fail(&format!("transparent-composite-{name}"), format!("inner logs differ: {:?} vs {:?}", a.log, b.log), desc.clone());
    }
    // counting: against what the inner object BEHIND THE ADAPTOR reported
    let want_bar = apply_reps(&Expect::new(&cfg), &a.log, &cfg);
    let obs = Expect::observed(&pb);
    if want_bar != obs {
        s.fail(
            &format!("count-composite-{name}"),
            format!("inner reported {:?}; getters show {obs:?}, property defines {want_bar:?}", a.log),
            desc.clone(),
        );
    }
    s.count(&format!("composite:{name}"));
    s.oracle_only(desc, !script.is_empty());
}

/// the old F2 witnesses on a real std iterator (ExactSizeIterator contract through std adaptors)
fn size_hint_witnesses(s: &mut Session) {
    let hid = |n: u64| ProgressBar::with_draw_target(Some(n), ProgressDrawTarget::hidden());
    let desc = "witness F2: vec![1,2,3].into_iter().progress_with(pb) .size_hint() / .skip(1).len() / .take(2).len() / .peekable().len() / .zip(0..3).len() / .chain(0..3).size_hint() / .try_progress()".to_string();
    let got = catch(|| {
        let v = vec![1, 2, 3];
        (
            v.clone().into_iter().progress_with(hid(3)).size_hint(),
            v.clone().into_iter().progress_with(hid(3)).skip(1).len(),
            v.clone().into_iter().progress_with(hid(3)).take(2).len(),
            v.clone().into_iter().progress_with(hid(3)).peekable().len(),
            v.clone().into_iter().progress_with(hid(3)).zip(0..3).len(),
            v.clone().into_iter().progress_with(hid(3)).chain(0..3).size_hint(),
            v.clone().into_iter().progress_with(hid(3)).try_progress().is_some(),
        )
    });
    let v = vec![1, 2, 3];
    let want = (
        v.clone().into_iter().size_hint(),
        v.clone().into_iter().skip(1).len(),
        v.clone().into_iter().take(2).len(),
        v.clone().into_iter().peekable().len(),
        v.clone().into_iter().zip(0..3).len(),
        v.clone().into_iter().chain(0..3).size_hint(),
        v.clone().into_iter().try_progress().is_some(),
    );
    match got {
        Ok(g) if g == want => {}
        Ok(g) => s.fail("iter-size-hint-not-forwarded", format!("through the adaptor {g:?}, bare {want:?}"), desc.clone()),
        Err(e) => s.fail("iter-size-hint-not-forwarded", format!("panicked: {e}; bare {want:?}"), desc.clone()),
    }
    s.count("witness:size_hint");
    s.oracle_only(desc, true);
}

// ------------------------------------------------------------------ rayon
const RAYON_KINDS: [&str; 22] = [
    "vec.map.sum(drive)",
    "range.collect(drive)",
    "par_chunks.map.sum(drive)",
    "filter.unindexed.sum(drive_unindexed)",
    "flat_map_iter.unindexed.count",
    "with_min_len(producer)",
    "with_max_len(producer)",
    "rev(producer)",
    "zip(producer)",
    "chunks(producer)",
    "enumerate(producer)",
    "skip(producer)",
    "take(producer)",
    "step_by(producer)",
    "chain(producer)",
    "interleave(producer)",
    "find_any(early exit, drive)",
    "rev.find_first(early exit, producer)",
    "fold.reduce(drive)",
    "par_bridge(unindexed)",
    "collect_into_vec(drive)",
    "zip_as_right_operand(producer)",
];

fn run_rayon(s: &mut Session, r: &mut Rng, kind: usize, threads: usize, n: u64, cfg: &BarCfg, class_hint: &str) {
    let kname = RAYON_KINDS[kind];
    let desc = format!("rayon kind={kname} threads={threads} items={n} {}", cfg.desc());
    let pool = match rayon::ThreadPoolBuilder::new().num_threads(threads).build() {
        Ok(p) => p,
        Err(e) => {
            s.notes.push(format!("thread pool {threads}: {e}"));
            return;
        }
    };
    let v: Vec<u64> = (0..n).map(|i| i.wrapping_mul(2654435761) % 1000).collect();
    let pb = cfg.bar();
    // items that left the INNER parallel iterator (counted below the adaptor)
    let seen = AtomicU64::new(0);
    let tick = |_: &u64| {
        seen.fetch_add(1, Ordering::SeqCst);
    };
    let target = r.below(n.max(1));
    let min_len = r.range(1, 64) as usize;
    let csz = r.range(1, 9) as usize;
    let sk = r.below(n + 2) as usize;
    let p = pb.clone();
    let res = catch(|| {
        pool.install(|| -> (String, String) {
            // (result through the adaptor, reference result computed sequentially)
            let h = |xs: Vec<u64>| format!("{:?}", xs.iter().fold(0u64, |a, b| a.wrapping_mul(1000003).wrapping_add(*b)));
            match kind {
                0 => (
                    format!("{}", v.par_iter().inspect(|x| tick(x)).progress_with(p).map(|x| x * 2).sum::<u64>()),
                    format!("{}", v.iter().map(|x| x * 2).sum::<u64>()),
                ),
                1 => (
                    h((0..n).into_par_iter().inspect(tick).progress_with(p).collect::<Vec<u64>>()),
                    h((0..n).collect()),
                ),
                2 => (
                    format!("{}", v.par_chunks(csz).map(|c| c.len() as u64).inspect(tick).progress_with(p).sum::<u64>()),
                    format!("{}", v.chunks(csz).map(|c| c.len() as u64).sum::<u64>()),
                ),
                3 => (
                    format!("{}", v.par_iter().filter(|x| **x % 3 == 0).inspect(|x| tick(x)).progress_with(p).map(|x| *x).sum::<u64>()),
                    format!("{}", v.iter().filter(|x| **x % 3 == 0).sum::<u64>()),
                ),
                4 => (
                    format!("{}", v.par_iter().flat_map_iter(|x| 0..(*x % 3)).inspect(tick).progress_with(p).count()),
                    format!("{}", v.iter().flat_map(|x| 0..(*x % 3)).count()),
                ),
                5 => (
                    format!("{}", v.par_iter().inspect(|x| tick(x)).progress_with(p).with_min_len(min_len).map(|x| *x).sum::<u64>()),
                    format!("{}", v.iter().sum::<u64>()),
                ),
                6 => (
                    format!("{}", v.par_iter().inspect(|x| tick(x)).progress_with(p).with_max_len(min_len).map(|x| *x).sum::<u64>()),
                    format!("{}", v.iter().sum::<u64>()),
                ),
                7 => (
                    h(v.par_iter().inspect(|x| tick(x)).progress_with(p).rev().map(|x| *x).collect()),
                    h(v.iter().rev().copied().collect()),
                ),
                8 => (
                    h(v.par_iter().inspect(|x| tick(x)).progress_with(p).zip(v.par_iter()).map(|(a, b)| a + b).collect()),
                    h(v.iter().zip(v.iter()).map(|(a, b)| a + b).collect()),
                ),
                9 => (
                    h(v.par_iter().inspect(|x| tick(x)).progress_with(p).chunks(csz).map(|c| c.len() as u64).collect()),
                    h(v.chunks(csz).map(|c| c.len() as u64).collect()),
                ),
                10 => (
                    h(v.par_iter().inspect(|x| tick(x)).progress_with(p).enumerate().map(|(i, x)| i as u64 + x).collect()),
                    h(v.iter().enumerate().map(|(i, x)| i as u64 + x).collect()),
                ),
                11 => (
                    h(v.par_iter().inspect(|x| tick(x)).progress_with(p).skip(sk).map(|x| *x).collect()),
                    h(v.iter().skip(sk).copied().collect()),
                ),
                12 => (
                    h(v.par_iter().inspect(|x| tick(x)).progress_with(p).take(sk).map(|x| *x).collect()),
                    h(v.iter().take(sk).copied().collect()),
                ),
                13 => (
                    h(v.par_iter().inspect(|x| tick(x)).progress_with(p).step_by(csz).map(|x| *x).collect()),
                    h(v.iter().step_by(csz).copied().collect()),
                ),
                14 => (
                    h(v.par_iter().inspect(|x| tick(x)).progress_with(p).chain(v.par_iter()).map(|x| *x).collect()),
                    h(v.iter().chain(v.iter()).copied().collect()),
                ),
                15 => (
                    h(v.par_iter().inspect(|x| tick(x)).progress_with(p).interleave(v.par_iter()).map(|x| *x).collect()),
                    h(v.iter().zip(v.iter()).flat_map(|(a, b)| [*a, *b]).collect()),
                ),
                16 => (
                    format!("{:?}", (0..n).into_par_iter().inspect(tick).progress_with(p).find_any(|x| *x == target)),
                    format!("{:?}", (0..n).find(|x| *x == target)),
                ),
                17 => (
                    format!("{:?}", v.par_iter().inspect(|x| tick(x)).progress_with(p).rev().find_first(|x| **x <= target % 1000)),
                    format!("{:?}", v.iter().rev().find(|x| **x <= target % 1000)),
                ),
                18 => (
                    format!("{}", v.par_iter().inspect(|x| tick(x)).progress_with(p).fold(|| 0u64, |a, b| a + b).reduce(|| 0, |a, b| a + b)),
                    format!("{}", v.iter().sum::<u64>()),
                ),
                19 => (
                    format!("{}", v.iter().par_bridge().inspect(|x| tick(x)).progress_with(p).map(|x| *x).sum::<u64>()),
                    format!("{}", v.iter().sum::<u64>()),
                ),
                20 => {
                    let mut out = vec![];
                    v.par_iter().inspect(|x| tick(x)).progress_with(p).map(|x| *x).collect_into_vec(&mut out);
                    (h(out), h(v.clone()))
                }
                _ => (
                    h(v.par_iter().zip(v.par_iter().inspect(|x| tick(x)).progress_with(p)).map(|(a, b)| a * 3 + b).collect()),
                    h(v.iter().zip(v.iter()).map(|(a, b)| a * 3 + b).collect()),
                ),
            }
        })
    });
    drop(pool);
    let (got, want) = match res {
        Ok(x) => x,
        Err(e) => {
            s.fail("panic-rayon", e, desc.clone());
            return;
        }
    };
    if got != want {
        s.fail("transparent-rayon", format!("result through the adaptor {got}, sequential reference {want}"), desc.clone());
    }
    let items = seen.load(Ordering::SeqCst);
    let exp_pos = cfg.pos0.wrapping_add(items);
    let (pos, fin) = (pb.position(), pb.is_finished());
    if pos != exp_pos || fin {
        // a part of a split producer finishing the bar (pos := len) while the others still count
        let class = if !kname.contains("producer") {
            "count-rayon-consumer"
        } else if fin {
            class_hint
        } else {
            "count-rayon-producer"
        };
        s.fail(
            class,
            format!("{items} items left the inner parallel iterator; position {pos} (expected {exp_pos}), is_finished={fin} (the bar is still referenced: expected false)"),
            desc.clone(),
        );
    }
    s.count(&format!("rayon:{kname}"));
    s.count(&format!("rayon-threads:{}", if threads == 1 { "1" } else if threads <= 4 { "2-4" } else { "5-16" }));
    let coq = format!(
        "CaseRayon {} {} {} {} {} {}",
        copt(cfg.len.map(|x| x.to_string())),
        cfg.pos0,
        cfg.coq_finish(),
        items,
        pos,
        cbool(fin)
    );
    s.case(coq, desc, n >= 2);
}

// ------------------------------------------------------------------ main
fn main() {
    let a = args();
    let header = "From IndModel Require Import Base Adaptors.\nOpen Scope N_scope.\n";
    // head_code = the variant of the model that transcribes /repo HEAD (all four fixes present)
    let mut s = Session::new(&a, "C17", header, "c17case", "(adaptors_check head_code)");
    s.rule = "seq: one scripted inner object (script = list of short/zero/over-long transfers, errors, Pending, items, end, partial-transfer errors, ReadBuf shrink; its AsyncWrite is genuinely vectored) wrapped by the real ProgressBarIter (hidden bar; len/pos0/on_finish from the seed, pos0 near 2^64 included), 0..14 calls of one trait family (or mixed; awrite includes poll_write_vectored / is_write_vectored) interleaved with set_position/finish/abandon/reset/set_length on the bar; the same calls on an identical bare object; non-trivial = at least 2 steps. composite: std default methods (read_to_end, io::copy, write_all, read_until, nth, count, last, rev, fold) and repeated poll_write_vectored as callers, oracle only. rayon: 22 pipelines (drive, drive_unindexed, with_producer paths, early exit) x 1..16 threads; distinct = distinct description text".into();
    let mut r = Rng::new(a.seed);
    let cfg0 = BarCfg { len: Some(5), pos0: 0, fin: 0, msg: "done".into() };
    let cfgc = BarCfg { len: Some(5), pos0: 0, fin: 2, msg: "done".into() };
    let cfgm = BarCfg { len: Some(9), pos0: 2, fin: 1, msg: "bye".into() };
    let cfgw = BarCfg { len: None, pos0: u64::MAX, fin: 4, msg: "ab".into() };
    use Call as C;
    use Step::Call as SC;
    use Step::User as SU;
    // ---- corpus: old witnesses (must pass on the repaired tree) and boundary cases
    let corpus: Vec<(&str, &BarCfg, Vec<Ev>, Vec<Step>)> = vec![
        // F2: size_hint not forwarded
        ("iter", &cfg0, vec![Ev::Item(1), Ev::Item(2), Ev::Item(3)], vec![SC(C::SizeHint), SC(C::Len), SC(C::Next), SC(C::SizeHint)]),
        // F3: async seek did not set the position
        ("aseek", &cfg0, vec![Ev::N(0), Ev::N(7)], vec![SC(C::StartSeek(SeekFrom::Start(7))), SC(C::PollComplete)]),
        ("aseek", &cfgm, vec![Ev::N(0), Ev::Pend, Ev::Err(5), Ev::N(u64::MAX)], vec![SC(C::StartSeek(SeekFrom::End(-1))), SC(C::PollComplete), SC(C::PollComplete), SC(C::PollComplete)]),
        // D16: async BufRead counted buf.len() per poll_fill_buf
        ("abufread", &cfg0, vec![Ev::N(5), Ev::N(5)], vec![SC(C::PollFillBuf), SC(C::PollFillBuf), SC(C::AConsume(2))]),
        ("abufread", &cfg0, vec![Ev::N(5), Ev::Pend, Ev::N(3)], vec![SC(C::PollFillBuf), SC(C::AConsume(5)), SC(C::PollFillBuf), SC(C::PollFillBuf), SC(C::AConsume(1))]),
        ("bufread", &cfg0, vec![Ev::N(5), Ev::N(5)], vec![SC(C::FillBuf), SC(C::FillBuf), SC(C::Consume(2)), SC(C::Consume(0))]),
        // read_exact: Err after a partial transfer counts 0
        ("read", &cfg0, vec![Ev::N(3), Ev::N(8), Ev::PartialErr(2, 5)], vec![SC(C::ReadExact(8)), SC(C::ReadExact(8)), SC(C::ReadExact(4))]),
        // short / zero / over-long reads, errors
        ("read", &cfgm, vec![Ev::N(0), Ev::N(3), Ev::N(99), Ev::Err(4), Ev::Pend], vec![SC(C::Read(5)), SC(C::Read(5)), SC(C::Read(5)), SC(C::Read(5)), SC(C::Read(5)), SC(C::Read(5))]),
        ("read", &cfg0, vec![Ev::N(7), Ev::N(2)], vec![SC(C::ReadVectored(vec![3, 0, 5])), SC(C::ReadToString), SC(C::ReadVectored(vec![]))]),
        // Iterator and Stream: finish on exhaustion, once (the stream case: regression witness of 3a319c2)
        ("iter", &cfg0, vec![Ev::Item(1), Ev::End, Ev::End], vec![SC(C::Next), SC(C::Next), SU(UserOp::SetPos(3)), SC(C::Next)]),
        ("stream", &cfg0, vec![Ev::Item(1), Ev::End, Ev::End], vec![SC(C::PollNext), SC(C::PollNext), SU(UserOp::SetPos(3)), SC(C::PollNext)]),
        // regression witness of 7fc986e (C17_pre_fix_stream_size_hint_refuted): Stream::size_hint with items ahead
        ("stream", &cfg0, vec![Ev::Item(1), Ev::Item(2)], vec![SC(C::StreamSizeHint), SC(C::PollNext), SC(C::StreamSizeHint)]),
        // regression witnesses of 3a319c2 (C17_pre_fix_stream_end_refuted): the stream ends on a bar the user abandoned at 3 / finished
        ("stream", &cfg0, vec![Ev::End], vec![SU(UserOp::SetPos(3)), SU(UserOp::Abandon), SC(C::PollNext)]),
        ("stream", &cfgm, vec![Ev::End, Ev::End], vec![SU(UserOp::Finish), SC(C::PollNext), SU(UserOp::Reset), SC(C::PollNext)]),
        // regression witnesses of 2747e49 (C17_pre_fix_async_write_vectored_refuted, C17_pre_fix_is_write_vectored_refuted)
        ("awrite", &cfg0, vec![Ev::N(4)], vec![SC(C::IsWriteVectored), SC(C::PollWriteVectored(vec![vec![1, 2], vec![3, 4, 5]]))]),
        ("awrite", &cfg0, vec![Ev::Pend, Ev::N(9), Ev::Err(5), Ev::N(1)], vec![SC(C::PollWriteVectored(vec![vec![], vec![7], vec![8, 9]])), SC(C::PollWriteVectored(vec![vec![], vec![7], vec![8, 9]])), SC(C::PollWriteVectored(vec![vec![1]])), SC(C::PollWriteVectored(vec![])), SC(C::IsWriteVectored)]),
        // non-fused sources
        ("iter", &cfgc, vec![Ev::Item(1), Ev::End, Ev::Item(2), Ev::End], vec![SC(C::Next), SC(C::Next), SC(C::NextBack), SC(C::NextBack)]),
        ("stream", &cfgc, vec![Ev::Item(1), Ev::End, Ev::Item(2), Ev::Pend, Ev::End], vec![SC(C::PollNext), SC(C::PollNext), SC(C::PollNext), SC(C::PollNext), SC(C::PollNext), SC(C::StreamSizeHint)]),
        // finish behaviours with messages; user finished the bar first; reset
        ("iter", &cfgm, vec![Ev::End], vec![SC(C::Next)]),
        ("iter", &cfgw, vec![Ev::Item(1), Ev::End], vec![SC(C::Next), SC(C::Next)]),
        ("iter", &cfgm, vec![Ev::End, Ev::End], vec![SU(UserOp::Abandon), SC(C::Next), SU(UserOp::Reset), SC(C::Next)]),
        // wrap at 2^64
        ("write", &cfgw, vec![Ev::N(3), Ev::N(0), Ev::Err(32), Ev::N(9)], vec![SC(C::Write(vec![1, 2, 3, 4])), SC(C::Write(vec![5])), SC(C::Write(vec![6])), SC(C::WriteVectored(vec![vec![7, 8], vec![], vec![9]])), SC(C::Flush)]),
        ("awrite", &cfg0, vec![Ev::Pend, Ev::N(2), Ev::Err(5), Ev::Pend, Ev::N(0), Ev::Pend, Ev::N(0)], vec![SC(C::PollWrite(vec![1, 2, 3])), SC(C::PollWrite(vec![1, 2, 3])), SC(C::PollWrite(vec![3])), SC(C::PollFlush), SC(C::PollFlush), SC(C::PollShutdown), SC(C::PollShutdown)]),
        // poll_read: Pending counts 0, Ready(Err) after bytes counts them, EOF
        ("aread", &cfg0, vec![Ev::Pend, Ev::N(3), Ev::PartialErr(3, 5), Ev::Err(5), Ev::End, Ev::N(99)], vec![SC(C::PollRead(0, 8)), SC(C::PollRead(2, 8)), SC(C::PollRead(2, 10)), SC(C::PollRead(1, 4)), SC(C::PollRead(0, 4)), SC(C::PollRead(3, 6))]),
        // regression witness of c811d79 (C17_pre_fix_poll_read_shrink_refuted): the inner reader shrinks ReadBuf::filled
        ("aread", &cfg0, vec![Ev::Shrink(0), Ev::Shrink(1)], vec![SC(C::PollRead(2, 8)), SC(C::PollRead(2, 8))]),
        // seeks in all modes, then data
        ("seek", &cfg0, vec![Ev::N(10), Ev::N(4), Ev::N(u64::MAX), Ev::Err(22), Ev::N(3)], vec![SC(C::Seek(SeekFrom::Start(10))), SC(C::Seek(SeekFrom::Current(-6))), SC(C::Seek(SeekFrom::End(i64::MIN))), SC(C::Seek(SeekFrom::Start(1))), SC(C::StreamPosition), SC(C::Read(3))]),
    ];
    for (fam, cfg, script, steps) in &corpus {
        run_seq(&mut s, fam, cfg, script, steps);
    }
    size_hint_witnesses(&mut s);
    // F1: a part of a split producer finished the bar (any thread count, even 1)
    let cfg_r = BarCfg { len: Some(10_000), pos0: 0, fin: 2, msg: "".into() };
    for kind in [5usize, 7, 8, 9] {
        for threads in [1usize, 4] {
            run_rayon(&mut s, &mut r, kind, threads, 10_000, &cfg_r, "rayon-producer-leaf-finish");
        }
    }
    // ---- random cases
    let (n_seq, n_comp, n_rayon) = if a.thorough {
        (24_000, 6_000, 1_500)
    } else if a.extended {
        (20_000, 4_000, 800)
    } else {
        (2_200, 500, 130)
    };
    for _ in 0..n_seq {
        let (fam, cfg, script, steps) = gen_seq(&mut r);
        run_seq(&mut s, fam, &cfg, &script, &steps);
    }
    for _ in 0..n_comp {
        run_composite(&mut s, &mut r);
    }
    for i in 0..n_rayon {
        let kind = i % RAYON_KINDS.len();
        let threads = r.range(1, 16) as usize;
        let n = match r.below(6) {
            0 => r.below(4),
            1 => r.range(4, 64),
            5 => r.range(5_000, 30_000),
            _ => r.range(64, 3_000),
        };
        let mut cfg = gen_cfg(&mut r);
        if r.chance(1, 2) {
            cfg.len = Some(n);
        }
        run_rayon(&mut s, &mut r, kind, threads, n, &cfg, "rayon-producer-leaf-finish");
    }
    s.finish();
}
