//! C02 – MultiProgress shows every member once, in logical order, below the log.
//! Correspondence with model/Sys.v on multi-bar histories + the screen oracle (sysoracle.rs),
//! plus a real-thread stress run (the interleaving clause is otherwise only proved GIVEN atomic steps).
use indicatif::{MultiProgress, MultiProgressAlignment, ProgressBar, ProgressDrawTarget, ProgressStyle};
use verif_harness::spy::{Spy, TOp};
use verif_harness::sysoracle::*;
use verif_harness::sysrun::*;
use verif_harness::*;

fn main() {
    let a = args();
    let mut s = Session::new(&a, "C02", COQ_HEADER, COQ_CASE_TY, COQ_CHECKER);
    s.shard_size = 120;
    s.rule = "corpus (old witnesses D21, D22, bottom-alignment println, slot reuse, every insert variant) + random histories over one MultiProgress on a recording terminal with 1..5 bars: add/insert/insert_from_back/insert_before/insert_after/remove/set_alignment/drop in every order, tick/inc/set_position/set_message/set_length/reset/force_draw, finish*/abandon*/finish_using_style, println (multi and member), suspend, clear; every ProgressFinish; widths 1..40; both alignments; gaps >= 1 ms (limiter exhaustion: see C03); + 3-thread stress runs judged by the frame oracle only; non-trivial = at least 2 bars added and 5 ops; distinct = distinct case text".into();
    let mut r = Rng::new(a.seed);
    let cfg = GenCfg::default_multi();
    let n = if a.thorough { 6000 } else if a.extended { 3000 } else { 500 };
    let mut cases = corpus();
    for _ in 0..n {
        cases.push(gen_multi_case(&mut r, &cfg));
    }
    run_sys_cases(&mut s, &cases, &|c, _| c.ops.iter().filter(|(_, o)| matches!(o, Op::Insert(..))).count() >= 2 && c.ops.len() >= 5);
    reclassify_bottom(&mut s, &cases);
    let runs = if a.thorough { 60 } else { 12 };
    for k in 0..runs {
        thread_stress(&mut s, &mut r, k);
    }
    s.finish();
}

/// sysoracle::classify() reports every failure of a history that ever selected bottom alignment
/// under one lump class; split it into narrow, decidable classes:
///  * 'bottom-alignment-kept-rows-misplaced' (open finding D22): NOT a log-line failure, and the
///    history has, under bottom alignment, a painted frame with padding rows (shift > 0: an empty
///    write_line that does not follow a write_str) that is the latest frame when a member bar is
///    dropped, or that is painted after a member bar was dropped (a zombie reaped with Keep while
///    shift > 0);
///  * 'bottom-println-text-below-padding' (fixed by 951c29f) / 'bottom-alignment-empty-frame-drift'
///    (fixed by 8b11f76): must not occur any more, reported as violations if they do;
///  * 'bottom-alignment-other': anything else.
pub fn reclassify_bottom(s: &mut Session, cases: &[Case]) {
    const LUMP: &str = "bottom-alignment-shrunken-frame";
    // keyed on the replay predicate, not on the oracle's class name: region-type failures only
    let region_type = |c: &str| c == LUMP || c.starts_with("region-mismatch") || c == "clear-left-rows";
    let mut moved: Vec<(String, String)> = vec![];
    for f in s.failures.iter_mut().filter(|f| region_type(&f.class)) {
        let log_failure = f.detail.contains("the lines printed so far are") || f.detail.contains("the first rows of the screen are");
        let (mut empty_frame, mut kept, mut bottom_ever) = (false, false, false);
        if let Some(c) = cases.iter().find(|c| describe(c) == f.case) {
            let obs = run_case(c);
            let mut bottom = false;
            let mut padded_frame_seen = false;
            let mut dropped_member = false;
            let mut member = vec![false; c.bars.len()];
            for ((_, op), o) in c.ops.iter().zip(obs.iter()) {
                match op {
                    Op::SetAlign(b) => {
                        bottom = *b;
                        bottom_ever |= *b;
                    }
                    Op::Insert(_, b) => member[*b] = true,
                    Op::Remove(b) => member[*b] = false,
                    _ => {}
                }
                let painted = o.emitted.iter().any(|x| *x == TOp::Flush);
                let cleared = o.emitted.iter().any(|x| *x == TOp::Clear);
                let wrote = o.emitted.iter().any(|x| matches!(x, TOp::Str(_)));
                let padding = o.emitted.iter().enumerate().any(|(i, x)| {
                    matches!(x, TOp::Line(l) if l.is_empty()) && (i == 0 || !matches!(o.emitted[i - 1], TOp::Str(_)))
                });
                if painted {
                    // the last painted frame has padding rows (shift > 0)
                    padded_frame_seen = bottom && padding;
                    if padded_frame_seen && dropped_member {
                        kept = true; // a zombie may be reaped by this padded frame
                    }
                    if padded_frame_seen && cleared && !wrote {
                        empty_frame = true;
                    }
                }
                if let Op::Drop(b) = op {
                    if member[*b] {
                        dropped_member = true;
                        if padded_frame_seen {
                            kept = true; // reaped at the head right after a padded frame
                        }
                    }
                }
            }
        }
        let narrow = if !bottom_ever {
            continue;
        } else if log_failure {
            "bottom-println-text-below-padding"
        } else if kept {
            "bottom-alignment-kept-rows-misplaced"
        } else if empty_frame {
            "bottom-alignment-empty-frame-drift"
        } else if f.class == LUMP {
            "bottom-alignment-other"
        } else {
            continue;
        };
        moved.push((f.class.clone(), narrow.to_string()));
        f.class = narrow.to_string();
    }
    for (old, new) in moved {
        let k = format!("oracle_failure:{old}");
        if let Some(v) = s.dist.get_mut(&k) {
            *v = v.saturating_sub(1);
            if *v == 0 {
                s.dist.remove(&k);
            }
        }
        s.count(&format!("oracle_failure:{new}"));
    }
}

fn corpus() -> Vec<Case> {
    let b = |tmpl: Vec<TPart>, fin| BarInit { len: Some(10), fin, tmpl, target: TInit::Hidden };
    let t = |id: &str| vec![TPart::Lit(id.into()), TPart::Pos];
    let mk = |w, bars: Vec<BarInit>, ops: Vec<(u64, Op)>| Case { w, h: 50, fail_at: vec![], fail_from: None, mp: TInit::Term(None), bars, ops };
    let ms = 1_000_000u64;
    vec![
        // D21: remove(first) then drop of an already finished new head (fixed by dbf4cde)
        mk(
            20,
            vec![b(t("A"), Fin::AndLeave), b(t("B"), Fin::AndLeave), b(t("C"), Fin::AndLeave)],
            vec![
                (0, Op::Insert(Loc::End, 0)),
                (0, Op::Insert(Loc::End, 1)),
                (0, Op::Insert(Loc::End, 2)),
                (ms, Op::Tick(0)),
                (2 * ms, Op::Tick(1)),
                (3 * ms, Op::Tick(2)),
                (4 * ms, Op::Finish(1, Fin::AndLeave)),
                (5 * ms, Op::Remove(0)),
                (6 * ms, Op::Drop(1)),
                (7 * ms, Op::Tick(2)),
                (8 * ms, Op::MPrintln("after".into())),
                (9 * ms, Op::Tick(2)),
            ],
        ),
        // every insert variant, clamped indices, slot reuse after removal
        mk(
            12,
            vec![b(t("A"), Fin::AndLeave), b(t("B"), Fin::AndClear), b(t("C"), Fin::Abandon), b(t("D"), Fin::AndLeave), b(t("E"), Fin::AndLeave)],
            vec![
                (0, Op::Insert(Loc::End, 0)),
                (ms, Op::Insert(Loc::Index(0), 1)),
                (2 * ms, Op::Insert(Loc::FromBack(1), 2)),
                (3 * ms, Op::Insert(Loc::After(1), 3)),
                (4 * ms, Op::Tick(0)),
                (5 * ms, Op::Tick(1)),
                (6 * ms, Op::Tick(2)),
                (7 * ms, Op::Tick(3)),
                (8 * ms, Op::Remove(2)),
                (9 * ms, Op::Insert(Loc::Before(0), 4)),
                (10 * ms, Op::Tick(4)),
                (11 * ms, Op::Insert(Loc::Index(99), 2)),
                (12 * ms, Op::Tick(2)),
                (13 * ms, Op::Remove(1)),
                (14 * ms, Op::Insert(Loc::FromBack(99), 1)),
                (15 * ms, Op::Tick(1)),
                (16 * ms, Op::Drop(3)),
                (17 * ms, Op::Drop(1)),
                (18 * ms, Op::Drop(4)),
                (19 * ms, Op::Tick(0)),
            ],
        ),
        // bottom alignment: shrunken frame, then println of a member (fixed by 951c29f)
        mk(
            40,
            vec![b(t("a"), Fin::AndClear), b(t("b"), Fin::AndClear), b(t("c"), Fin::AndClear)],
            vec![
                (0, Op::SetAlign(true)),
                (0, Op::Insert(Loc::End, 0)),
                (0, Op::Insert(Loc::End, 1)),
                (0, Op::Insert(Loc::End, 2)),
                (ms, Op::Tick(0)),
                (2 * ms, Op::Tick(1)),
                (3 * ms, Op::Tick(2)),
                (4 * ms, Op::Remove(0)),
                (5 * ms, Op::Finish(1, Fin::AndClear)),
                (6 * ms, Op::Println(2, "x".into())),
                (7 * ms, Op::Tick(2)),
                (8 * ms, Op::MPrintln("y".into())),
                (9 * ms, Op::Tick(2)),
            ],
        ),
        // zombie behind the head waits, is reaped with Keep(rows) once it reaches the head, kept rows
        // are erased by the next println
        mk(
            20,
            vec![b(t("A"), Fin::AndLeave), b(t("B"), Fin::WithMessage("done".into())), b(t("C"), Fin::AndLeave)],
            vec![
                (0, Op::Insert(Loc::End, 0)),
                (0, Op::Insert(Loc::End, 1)),
                (0, Op::Insert(Loc::End, 2)),
                (ms, Op::Tick(0)),
                (2 * ms, Op::Drop(1)),
                (3 * ms, Op::Tick(2)),
                (4 * ms, Op::Drop(0)),
                (5 * ms, Op::Tick(2)),
                (6 * ms, Op::MPrintln("log".into())),
                (7 * ms, Op::Tick(2)),
                (8 * ms, Op::Drop(2)),
            ],
        ),
    ]
}

/// Three real threads update three member bars concurrently (inc + set_message), a fourth thread
/// prints log lines.  Every painted frame is reconstructed from the recorded TermLike calls; per
/// bar the shown position must be a value the bar had (0..=N), never smaller than the one shown
/// before, the bars appear in logical order below the log lines, and the last frame shows the
/// final positions.  Not compared with the model (schedules are not replayable).
fn thread_stress(s: &mut Session, r: &mut Rng, k: u64) {
    use indicatif::verif_clock as vc;
    vc::set_clock_ns(vc::ORIGIN_NS);
    vc::set_auto_step_ns(200_000);
    let w = 30u16;
    let spy = Spy::new(w, 200);
    let bottom = k % 3 == 2;
    let n_inc: u64 = 20 + r.below(60);
    let desc = format!("thread-stress run {k}: 3 updater threads x {n_inc} inc, 1 println thread, bottom={bottom}");
    let res = catch(|| {
        let mp = MultiProgress::with_draw_target(ProgressDrawTarget::term_like(Box::new(spy.clone())));
        if bottom {
            mp.set_alignment(MultiProgressAlignment::Bottom);
        }
        let bars: Vec<ProgressBar> = ["A", "B", "C"]
            .iter()
            .map(|id| {
                let pb = mp.add(ProgressBar::new(n_inc));
                pb.set_style(ProgressStyle::with_template(&format!("{id}{{pos}}")).unwrap());
                pb
            })
            .collect();
        let mut hs = vec![];
        for pb in bars.iter().cloned() {
            hs.push(std::thread::spawn(move || {
                for _ in 0..n_inc {
                    pb.inc(1);
                }
                pb.finish();
            }));
        }
        let mp2 = mp.clone();
        hs.push(std::thread::spawn(move || {
            for i in 0..5 {
                let _ = mp2.println(format!("log{i}"));
            }
        }));
        for h in hs {
            h.join().map_err(|_| "thread panicked".to_string())?;
        }
        drop(bars);
        Ok::<(), String>(())
    });
    vc::set_auto_step_ns(0);
    s.count("thread_stress_runs");
    match res {
        Err(e) | Ok(Err(e)) => {
            s.fail("thread-stress-panic", e, desc.clone());
            s.oracle_only(desc, true);
            return;
        }
        Ok(Ok(())) => {}
    }
    let ops = spy.take();
    let mut vt = Vt::new(w, 200);
    let mut last = [0u64; 3];
    let mut frames = 0u64;
    let mut bad: Option<String> = None;
    let mut start = 0;
    for (i, o) in ops.iter().enumerate() {
        if *o != TOp::Flush {
            continue;
        }
        vt.feed(&ops[start..=i]);
        start = i + 1;
        frames += 1;
        let rows = vt.rows();
        let mut logs: Vec<&String> = vec![];
        let mut seen: Vec<(usize, u64)> = vec![];
        for row in rows.iter().filter(|x| !x.is_empty()) {
            if row.starts_with("log") {
                if !seen.is_empty() {
                    bad = Some(format!("frame {frames}: log line {row:?} below a bar: {rows:?}"));
                }
                logs.push(row);
            } else if let Some(b) = ["A", "B", "C"].iter().position(|id| row.starts_with(id)) {
                match row[1..].parse::<u64>() {
                    Ok(v) => seen.push((b, v)),
                    Err(_) => bad = Some(format!("frame {frames}: garbled row {row:?}")),
                }
            } else {
                bad = Some(format!("frame {frames}: foreign row {row:?} in {rows:?}"));
            }
        }
        for (j, l) in logs.iter().enumerate() {
            if **l != format!("log{j}") {
                bad = Some(format!("frame {frames}: log lines out of order / duplicated: {logs:?}"));
            }
        }
        if seen.windows(2).any(|p| p[0].0 >= p[1].0) {
            bad = Some(format!("frame {frames}: bars out of order or shown twice: {seen:?}"));
        }
        for (b, v) in &seen {
            if *v > n_inc || *v < last[*b] {
                bad = Some(format!("frame {frames}: bar {b} shows {v} after {} (max {n_inc})", last[*b]));
            }
            last[*b] = *v;
        }
        if bad.is_some() {
            break;
        }
    }
    if bad.is_none() {
        if last != [n_inc; 3] {
            bad = Some(format!("last frame shows {last:?}, final positions are {n_inc}"));
        }
        let rows = vt.rows();
        if (0..5).any(|j| !rows.iter().any(|x| *x == format!("log{j}"))) {
            bad = Some(format!("a printed line is missing at the end: {rows:?}"));
        }
    }
    s.count_n("thread_stress_frames", frames);
    if let Some(d) = bad {
        s.fail("thread-stress-frame", d, desc.clone());
    }
    s.oracle_only(desc, true);
}
