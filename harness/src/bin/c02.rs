//! C02 – MultiProgress shows every member once, in logical order, below the log.
//! Correspondence with model/Sys.v on multi-bar histories + the screen oracle (sysoracle.rs),
//! plus a real-thread stress run (the interleaving clause is otherwise only proved GIVEN atomic steps).
use indicatif::{MultiProgress, MultiProgressAlignment, ProgressBar, ProgressDrawTarget, ProgressStyle};
use verif_harness::spy::{Spy, TOp};
use verif_harness::sysoracle::*;
use verif_harness::sysrun::*;
use verif_harness::*;

fn main() {
    let a = args();
    let mut s = Session::new(&a, "C02", COQ_HEADER, COQ_CASE_TY, COQ_CHECKER);
    s.shard_size = 120;
    s.rule = "corpus (old witnesses D21, D22, bottom-alignment println, slot reuse, every insert variant) + random histories over one MultiProgress on a recording terminal with 1..5 bars: add/insert/insert_from_back/insert_before/insert_after/remove/set_alignment/drop in every order, tick/inc/set_position/set_message/set_length/reset/force_draw, finish*/abandon*/finish_using_style, println (multi and member), suspend, clear; every ProgressFinish; widths 1..40; both alignments; gaps >= 1 ms (limiter exhaustion: see C03); + 3-thread stress runs judged by the frame oracle only; non-trivial = at least 2 bars added and 5 ops; distinct = distinct case text".into();
    let mut r = Rng::new(a.seed);
    let cfg = GenCfg::default_multi();
    let n = if a.thorough { 6000 } else if a.extended { 3000 } else { 500 };
    let mut cases = corpus();
    for _ in 0..n {
        cases.push(gen_multi_case(&mut r, &cfg));
    }
    // kept rows of visibly finished, dropped bars are not checked here (C02: they "may instead remain"): C04/C19 check them
    run_sys_cases_mode(&mut s, &cases, &|c, _| c.ops.iter().filter(|(_, o)| matches!(o, Op::Insert(..))).count() >= 2 && c.ops.len() >= 5, false);
    let runs = if a.thorough { 60 } else { 12 };
    for k in 0..runs {
        thread_stress(&mut s, &mut r, k);
    }
    s.finish();
}

fn corpus() -> Vec<Case> {
    let b = |tmpl: Vec<TPart>, fin| BarInit { len: Some(10), fin, tmpl, target: TInit::Hidden };
    let t = |id: &str| vec![TPart::Lit(id.into()), TPart::Pos];
    let mk = |w, bars: Vec<BarInit>, ops: Vec<(u64, Op)>| Case { w, h: 50, fail_at: vec![], fail_from: None, mp: TInit::Term(None), bars, ops };
    let ms = 1_000_000u64;
    vec![
        // D21: remove(first) then drop of an already finished new head (fixed by dbf4cde)
        mk(
            20,
            vec![b(t("A"), Fin::AndLeave), b(t("B"), Fin::AndLeave), b(t("C"), Fin::AndLeave)],
            vec![
                (0, Op::Insert(Loc::End, 0)),
                (0, Op::Insert(Loc::End, 1)),
                (0, Op::Insert(Loc::End, 2)),
                (ms, Op::Tick(0)),
                (2 * ms, Op::Tick(1)),
                (3 * ms, Op::Tick(2)),
                (4 * ms, Op::Finish(1, Fin::AndLeave)),
                (5 * ms, Op::Remove(0)),
                (6 * ms, Op::Drop(1)),
                (7 * ms, Op::Tick(2)),
                (8 * ms, Op::MPrintln("after".into())),
                (9 * ms, Op::Tick(2)),
            ],
        ),
        // every insert variant, clamped indices, slot reuse after removal
        mk(
            12,
            vec![b(t("A"), Fin::AndLeave), b(t("B"), Fin::AndClear), b(t("C"), Fin::Abandon), b(t("D"), Fin::AndLeave), b(t("E"), Fin::AndLeave)],
            vec![
                (0, Op::Insert(Loc::End, 0)),
                (ms, Op::Insert(Loc::Index(0), 1)),
                (2 * ms, Op::Insert(Loc::FromBack(1), 2)),
                (3 * ms, Op::Insert(Loc::After(1), 3)),
                (4 * ms, Op::Tick(0)),
                (5 * ms, Op::Tick(1)),
                (6 * ms, Op::Tick(2)),
                (7 * ms, Op::Tick(3)),
                (8 * ms, Op::Remove(2)),
                (9 * ms, Op::Insert(Loc::Before(0), 4)),
                (10 * ms, Op::Tick(4)),
                (11 * ms, Op::Insert(Loc::Index(99), 2)),
                (12 * ms, Op::Tick(2)),
                (13 * ms, Op::Remove(1)),
                (14 * ms, Op::Insert(Loc::FromBack(99), 1)),
                (15 * ms, Op::Tick(1)),
                (16 * ms, Op::Drop(3)),
                (17 * ms, Op::Drop(1)),
                (18 * ms, Op::Drop(4)),
                (19 * ms, Op::Tick(0)),
            ],
        ),
        // bottom alignment: shrunken frame, then println of a member (fixed by 951c29f)
        mk(
            40,
            vec![b(t("a"), Fin::AndClear), b(t("b"), Fin::AndClear), b(t("c"), Fin::AndClear)],
            vec![
                (0, Op::SetAlign(true)),
                (0, Op::Insert(Loc::End, 0)),
                (0, Op::Insert(Loc::End, 1)),
                (0, Op::Insert(Loc::End, 2)),
                (ms, Op::Tick(0)),
                (2 * ms, Op::Tick(1)),
                (3 * ms, Op::Tick(2)),
                (4 * ms, Op::Remove(0)),
                (5 * ms, Op::Finish(1, Fin::AndClear)),
                (6 * ms, Op::Println(2, "x".into())),
                (7 * ms, Op::Tick(2)),
                (8 * ms, Op::MPrintln("y".into())),
                (9 * ms, Op::Tick(2)),
            ],
        ),
        // zombie behind the head waits, is reaped with Keep(rows) once it reaches the head, kept rows
        // are erased by the next println
        mk(
            20,
            vec![b(t("A"), Fin::AndLeave), b(t("B"), Fin::WithMessage("done".into())), b(t("C"), Fin::AndLeave)],
            vec![
                (0, Op::Insert(Loc::End, 0)),
                (0, Op::Insert(Loc::End, 1)),
                (0, Op::Insert(Loc::End, 2)),
                (ms, Op::Tick(0)),
                (2 * ms, Op::Drop(1)),
                (3 * ms, Op::Tick(2)),
                (4 * ms, Op::Drop(0)),
                (5 * ms, Op::Tick(2)),
                (6 * ms, Op::MPrintln("log".into())),
                (7 * ms, Op::Tick(2)),
                (8 * ms, Op::Drop(2)),
            ],
        ),
    ]
}

/// Three real threads update three member bars concurrently (inc + set_message), a fourth thread
/// prints log lines.  Every painted frame is reconstructed from the recorded TermLike calls; per
/// bar the shown position must be a value the bar had (0..=N), never smaller than the one shown
/// before, the bars appear in logical order below the log lines, and the last frame shows the
/// final positions.  Not compared with the model (schedules are not replayable).
fn thread_stress(s: &mut Session, r: &mut Rng, k: u64) {
    use indicatif::verif_clock as vc;
    vc::set_clock_ns(vc::ORIGIN_NS);
    vc::set_auto_step_ns(200_000);
    let w = 30u16;
    let spy = Spy::new(w, 200);
    let bottom = k % 3 == 2;
    let n_inc: u64 = 20 + r.below(60);
    let desc = format!("thread-stress run {k}: 3 updater threads x {n_inc} inc, 1 println thread, bottom={bottom}");
    let res = catch(|| {
        let mp = MultiProgress::with_draw_target(ProgressDrawTarget::term_like(Box::new(spy.clone())));
        if bottom {
            mp.set_alignment(MultiProgressAlignment::Bottom);
        }
        let bars: Vec<ProgressBar> = ["A", "B", "C"]
            .iter()
            .map(|id| {
                let pb = mp.add(ProgressBar::new(n_inc));
                pb.set_style(ProgressStyle::with_template(&format!("{id}{{pos}}")).unwrap());
                pb
            })
            .collect();
        let mut hs = vec![];
        for pb in bars.iter().cloned() {
            hs.push(std::thread::spawn(move || {
                for _ in 0..n_inc {
                    pb.inc(1);
                }
                pb.finish();
            }));
        }
        let mp2 = mp.clone();
        hs.push(std::thread::spawn(move || {
            for i in 0..5 {
                let _ = mp2.println(format!("log{i}"));
            }
        }));
        for h in hs {
            h.join().map_err(|_| "thread panicked".to_string())?;
        }
        drop(bars);
        Ok::<(), String>(())
    });
    vc::set_auto_step_ns(0);
    s.count("thread_stress_runs");
    match res {
        Err(e) | Ok(Err(e)) => {
            s.fail("thread-stress-panic", e, desc.clone());
            s.oracle_only(desc, true);
            return;
        }
        Ok(Ok(())) => {}
    }
    let ops = spy.take();
    let mut vt = Vt::new(w, 200);
    let mut last = [0u64; 3];
    let mut frames = 0u64;
    let mut bad: Option<String> = None;
    let mut start = 0;
    for (i, o) in ops.iter().enumerate() {
        if *o != TOp::Flush {
            continue;
        }
        vt.feed(&ops[start..=i]);
        start = i + 1;
        frames += 1;
        let rows = vt.rows();
        let mut logs: Vec<&String> = vec![];
        let mut seen: Vec<(usize, u64)> = vec![];
        for row in rows.iter().filter(|x| !x.is_empty()) {
            if row.starts_with("log") {
                if !seen.is_empty() {
                    bad = Some(format!("frame {frames}: log line {row:?} below a bar: {rows:?}"));
                }
                logs.push(row);
            } else if let Some(b) = ["A", "B", "C"].iter().position(|id| row.starts_with(id)) {
                match row[1..].parse::<u64>() {
                    Ok(v) => seen.push((b, v)),
                    Err(_) => bad = Some(format!("frame {frames}: garbled row {row:?}")),
                }
            } else {
                bad = Some(format!("frame {frames}: foreign row {row:?} in {rows:?}"));
            }
        }
        for (j, l) in logs.iter().enumerate() {
            if **l != format!("log{j}") {
                bad = Some(format!("frame {frames}: log lines out of order / duplicated: {logs:?}"));
            }
        }
        if seen.windows(2).any(|p| p[0].0 >= p[1].0) {
            bad = Some(format!("frame {frames}: bars out of order or shown twice: {seen:?}"));
        }
        for (b, v) in &seen {
            if *v > n_inc || *v < last[*b] {
                bad = Some(format!("frame {frames}: bar {b} shows {v} after {} (max {n_inc})", last[*b]));
            }
            last[*b] = *v;
        }
        if bad.is_some() {
            break;
        }
    }
    if bad.is_none() {
        if last != [n_inc; 3] {
            bad = Some(format!("last frame shows {last:?}, final positions are {n_inc}"));
        }
        let rows = vt.rows();
        if (0..5).any(|j| !rows.iter().any(|x| *x == format!("log{j}"))) {
            bad = Some(format!("a printed line is missing at the end: {rows:?}"));
        }
    }
    s.count_n("thread_stress_frames", frames);
    if let Some(d) = bad {
        s.fail("thread-stress-frame", d, desc.clone());
    }
    s.oracle_only(desc, true);
}
