//! C02 – MultiProgress shows every member once, in logical order, below the log.
//! Correspondence with model/Sys.v on multi-bar histories + the screen oracle (sysoracle.rs),
//! plus a real-thread stress run (the interleaving clause is otherwise only proved GIVEN atomic steps).
use indicatif::{MultiProgress, MultiProgressAlignment, ProgressBar, ProgressDrawTarget, ProgressStyle};
use verif_harness::spy::{Spy, TOp};
use verif_harness::sysoracle::*;
use verif_harness::sysrun::*;
use verif_harness::*;

fn main() {
    let a = args();
    let mut s = Session::new(&a, "C02", COQ_HEADER, COQ_CASE_TY, COQ_CHECKER);
    s.shard_size = 120;
    s.rule = "corpus (old witness D21, bottom-alignment println 951c29f, slot reuse, every insert variant, zombie reaped behind the head) + random histories over one MultiProgress on a recording terminal with 1..5 bars: add/insert/insert_from_back/insert_before/insert_after/remove/set_alignment/drop in every order, tick/inc/set_position/set_message/set_length/reset/force_draw, finish*/abandon*/finish_using_style, println (multi and member), suspend, clear; every ProgressFinish; widths 1..40; both alignments; gaps >= 1 ms; + 60 cases with an EXHAUSTED 1/20 Hz refresh limiter in which finished members are updated again and dropped (every draw of a finished bar must be painted: classes finished-bar-update-not-painted/-stale); + real-thread stress runs (even: one updater thread per bar, odd: TWO updater threads per bar) judged by the frame oracle only + the re-add family (add/insert* of a bar that is already a member, documented as no effect; real API, order oracle only) + a two-thread race insert_after(&a, x) || remove(&a) (outcomes counted); non-trivial = at least 2 bars added and 5 ops; distinct = distinct case text".into();
    let mut r = Rng::new(a.seed);
    let cfg = GenCfg::default_multi();
    let n = if a.thorough { 6000 } else if a.extended { 3000 } else { 500 };
    let mut cases = corpus();
    cases.extend(verif_harness::sysrun::finding_witnesses(&["D28"])); // open finding D28-C02 exhibited at every seed
    for _ in 0..n {
        cases.push(gen_multi_case(&mut r, &cfg));
    }
    // exhausted refresh limiter + updates of FINISHED members (then dropped): the gaps of the
    // generic generator are >= 1 ms on an unlimited target, so it never reaches a refused draw;
    // seeded change C02-3 (`force_draw |= is_finished()` removed) lives exactly there
    let n_fin = if a.thorough { 600 } else if a.extended { 300 } else { 60 };
    let first_fin = cases.len();
    for _ in 0..n_fin {
        cases.push(gen_finished_update_case(&mut r));
    }
    for c in &cases[first_fin..] {
        finished_update_oracle(&mut s, c);
    }
    // kept rows of visibly finished, dropped bars are not checked here (C02: they "may instead remain"): C04/C19 check them
    run_sys_cases_mode(&mut s, &cases, &|c, _| c.ops.iter().filter(|(_, o)| matches!(o, Op::Insert(..))).count() >= 2 && c.ops.len() >= 5, false);
    let runs = if a.thorough { 60 } else { 12 };
    for k in 0..runs {
        thread_stress(&mut s, &mut r, k);
    }
    // add / insert* of a bar that is ALREADY a member: documented as "no effect" (multi.rs, doc
    // comments of add/insert/insert_from_back/insert_before/insert_after; fixed by bee77c9); order
    // oracle written from the doc comments, real API (the sys cases above contain re-adds as well)
    for sc in readd_corpus() {
        readd_case(&mut s, &sc);
    }
    let n_readd = if a.thorough { 400 } else if a.extended { 200 } else { 40 };
    for _ in 0..n_readd {
        let sc = gen_readd_script(&mut r);
        readd_case(&mut s, &sc);
    }
    detached_suspend_witness(&mut s);
    torn_position_read_exhibit(&mut s);
    // insert_before/after read the reference bar's index BEFORE the MultiState lock is taken: a
    // remove(reference) of another thread can fall in between (docs/C02.md "Findings")
    stale_index_exhibit(&mut s);
    stale_index_race(&mut s, if a.thorough { 200_000 } else if a.extended { 60_000 } else { 10_000 });
    s.finish();
}

/// Open finding `insert-relative-to-concurrently-removed-bar` (known_findings.json; Coq:
/// C02_insert_sections_stale_index_refuted; candidate fix docs/patches/C02-insert-ref-index-race.diff,
/// not applied).  It is a real-thread race that the optimised harness build wins about once in 10^5
/// rounds (5-15 times in 2*10^4 rounds in the unoptimised test build of the demo): the class is
/// reported only when one of the two race outcomes has actually been OBSERVED in this run, i.e. on
/// a predicate of the observation: (M) insert_after returned normally and the screen shows x below
/// y although x was inserted after a; (P) insert_after panicked with `Option::unwrap()` on `None`
/// AND the MultiState lock is poisoned afterwards (a later println panics).  A run in which the
/// race is never won reports nothing.
const REPORT_STALE_INDEX_FINDING: bool = true;

/// Thread 1: `insert_after(&a, x)`; thread 2: `remove(&a)` (even rounds: followed by `add(y)`).
/// Every sequential order of these calls either shows x directly after a (then a is removed) or
/// panics in `a.index().unwrap()` before any lock of the MultiProgress is taken.  Outcomes no
/// sequential order has: (M) x placed after y (a's freed slot was recycled by add(y) between the
/// index read and the insertion); (P) the `unwrap()` inside MultiState::insert panics with the
/// MultiState write lock held - the lock is poisoned and every later call on the MultiProgress
/// panics.
fn stale_index_race(s: &mut Session, rounds: u32) {
    use indicatif::verif_clock as vc;
    use std::sync::{Arc, Barrier};
    vc::set_clock_ns(vc::ORIGIN_NS);
    vc::set_auto_step_ns(1_000_000);
    let (mut poisoned, mut misplaced, mut other) = (0u64, 0u64, 0u64);
    let mk = |id: &str| {
        let pb = ProgressBar::with_draw_target(Some(10), ProgressDrawTarget::hidden());
        pb.set_style(ProgressStyle::with_template(&format!("{id}{{pos}}")).unwrap());
        pb
    };
    for round in 0..rounds {
        let with_add = round % 2 == 0;
        let spy = Spy::new(20, 50);
        let mp = MultiProgress::with_draw_target(ProgressDrawTarget::term_like(Box::new(spy.clone())));
        let a = mp.add(mk("A"));
        let (x, y) = (mk("X"), mk("Y"));
        let gate = Arc::new(Barrier::new(2));
        let t1 = {
            let (mp, a, x, gate) = (mp.clone(), a.clone(), x.clone(), gate.clone());
            std::thread::spawn(move || {
                gate.wait();
                catch(|| drop(mp.insert_after(&a, x)))
            })
        };
        let t2 = {
            let (mp, a, y, gate) = (mp.clone(), a.clone(), y.clone(), gate.clone());
            std::thread::spawn(move || {
                gate.wait();
                catch(|| {
                    mp.remove(&a);
                    if with_add {
                        drop(mp.add(y));
                    }
                })
                .is_ok()
            })
        };
        let r1 = t1.join().unwrap_or_else(|_| Err("thread 1 died".into()));
        let ok1 = r1.is_ok();
        let _ = t2.join();
        let usable = catch(|| {
            x.tick();
            y.tick();
            mp.println("log").is_ok()
        });
        match usable {
            // (P): the unwrap inside MultiState::insert panicked with the write lock held
            Err(e) if !ok1 && r1.as_ref().err().map_or(false, |m| m.contains("unwrap()") && m.contains("None")) && e.contains("Poison") => poisoned += 1,
            Err(e) => {
                s.fail("stale-index-race-unexpected-panic", format!("after the race a call on the MultiProgress panicked: {e}; insert_after: {r1:?}"), format!("stale-index race round {round}"));
                other += 1;
            }
            Ok(_) => {
                let mut vt = Vt::new(20, 50);
                vt.feed(&spy.take());
                let bars: Vec<String> = vt.rows().into_iter().filter(|r| !r.is_empty() && r != "log").collect();
                let ids: String = bars.iter().filter_map(|r| r.chars().next()).collect();
                // the outcomes of the sequential orders of the calls
                let legal = match (ok1, with_add) {
                    (true, true) => "XY",  // insert_after first: a, x; a removed; y added
                    (true, false) => "X",
                    (false, true) => "Y",  // remove first: insert_after panics in index().unwrap()
                    (false, false) => "",
                };
                if ok1 && with_add && ids == "YX" {
                    misplaced += 1;
                } else if ids == legal {
                    other += 1;
                } else {
                    s.fail("stale-index-race-unexpected-order", format!("bars on the screen {bars:?} (insert_after ok: {ok1}, add(y): {with_add}); a sequential order of the calls gives {legal:?}"), format!("stale-index race round {round}"));
                    other += 1;
                }
            }
        }
        let _ = catch(move || drop((a, x, y, mp)));
    }
    vc::set_auto_step_ns(0);
    s.count_n("stale_index_race_rounds", rounds as u64);
    s.count_n("stale_index_race_sequential_outcomes", other);
    s.count_n("stale_index_race_misplaced", misplaced);
    s.count_n("stale_index_race_poisoned", poisoned);
    let desc = format!("stale-index race: {rounds} rounds of insert_after(&a, x) || remove(&a) [; add(y)]");
    if poisoned + misplaced > 0 {
        if REPORT_STALE_INDEX_FINDING {
            s.fail("insert-relative-to-concurrently-removed-bar", format!("{misplaced} rounds placed x after y, {poisoned} rounds poisoned the MultiState lock"), desc.clone());
        } else {
            s.count("unregistered-finding:insert-relative-to-concurrently-removed-bar");
        }
    }
    s.oracle_only(desc, true);
}

/// Deterministic exhibit of the same open finding (the race above stays as the search that finds it
/// without help).  `insert_after(&a, x)` evaluates `a.index()` FIRST and `internalize` then locks
/// `x`'s own state for the membership test before it takes the MultiState lock: a thread that holds
/// `x`'s state lock (inside `x.update(..)`) parks the inserting thread exactly in the window between
/// the index read and the insertion.  Meanwhile `remove(&a)` [+ `add(y)`] runs to completion.
/// Outcome on the unchanged tree: (M) with add(y): x is placed after y; (P) without: the `unwrap()`
/// inside `MultiState::insert` panics with the write lock held and the MultiProgress is poisoned.
/// No sequential order of the calls has either outcome.  If the inserting thread has not read the
/// index within the grace period (scheduler), the run shows a sequential outcome and reports nothing.
fn stale_index_exhibit(s: &mut Session) {
    use std::sync::mpsc::channel;
    let mk = |id: &str| {
        let pb = ProgressBar::with_draw_target(Some(10), ProgressDrawTarget::hidden());
        pb.set_style(ProgressStyle::with_template(&format!("{id}{{pos}}")).unwrap());
        pb
    };
    let (mut misplaced, mut poisoned) = (0u64, 0u64);
    for with_add in [true, false] {
        let spy = Spy::new(20, 50);
        let mp = MultiProgress::with_draw_target(ProgressDrawTarget::term_like(Box::new(spy.clone())));
        let a = mp.add(mk("A"));
        let (x, y) = (mk("X"), mk("Y"));
        let (locked_tx, locked_rx) = channel::<()>();
        let (go_tx, go_rx) = channel::<()>();
        // holder: keeps x's state lock until told to go
        let holder = {
            let x = x.clone();
            std::thread::spawn(move || {
                x.update(|_| {
                    let _ = locked_tx.send(());
                    let _ = go_rx.recv_timeout(std::time::Duration::from_secs(5));
                })
            })
        };
        let _ = locked_rx.recv_timeout(std::time::Duration::from_secs(5));
        let t1 = {
            let (mp, a, x) = (mp.clone(), a.clone(), x.clone());
            std::thread::spawn(move || catch(|| drop(mp.insert_after(&a, x))))
        };
        // grace period: the inserting thread reads a's index (microseconds) and then blocks on x's lock
        std::thread::sleep(std::time::Duration::from_millis(150));
        let _ = catch(|| {
            mp.remove(&a);
            if with_add {
                drop(mp.add(y.clone()));
            }
        });
        let _ = go_tx.send(());
        let _ = holder.join();
        let r1 = t1.join().unwrap_or_else(|_| Err("thread 1 died".into()));
        let usable = catch(|| {
            x.tick();
            y.tick();
            mp.println("log").is_ok()
        });
        match usable {
            Err(e) if r1.as_ref().err().map_or(false, |m| m.contains("unwrap()") && m.contains("None")) && e.contains("Poison") => poisoned += 1,
            Err(_) => {}
            Ok(_) => {
                let mut vt = Vt::new(20, 50);
                vt.feed(&spy.take());
                let ids: String = vt.rows().into_iter().filter(|r| !r.is_empty() && r != "log").filter_map(|r| r.chars().next()).collect();
                if r1.is_ok() && with_add && ids == "YX" {
                    misplaced += 1;
                }
            }
        }
        let _ = catch(move || drop((a, x, y, mp)));
    }
    s.count_n("stale_index_exhibit_misplaced", misplaced);
    s.count_n("stale_index_exhibit_poisoned", poisoned);
    let desc = "stale-index exhibit: insert_after(&a, x) parked on x's state lock between the index read and the insertion; remove(&a) [; add(y)] meanwhile".to_string();
    if misplaced + poisoned > 0 && REPORT_STALE_INDEX_FINDING {
        s.fail("insert-relative-to-concurrently-removed-bar", format!("deterministic exhibit: {misplaced} of 1 run placed x after y, {poisoned} of 1 run poisoned the MultiState lock"), desc.clone());
    }
    s.oracle_only(desc, true);
}

/// Re-adding a member used to leave its old slot behind as an empty, never reaped entry of the
/// ordering (`internalize` allocated a new slot and re-pointed the bar): every later index-based
/// insert counted the ghost, so the visible order differed from the documented one.  FIXED by
/// /repo bee77c9 ("adding a progress bar that is already a member of the MultiProgress has no
/// effect"); the family stays as a regression check: class `member-added-twice-leaves-ghost-slot`
/// is a VIOLATION if it reappears.

#[derive(Clone, Debug)]
enum SOp {
    Add(usize),
    Insert(usize, usize),
    FromBack(usize, usize),
    After(usize, usize),
    Before(usize, usize),
    Remove(usize),
    Drop(usize),
}

/// the documented list semantics: a bar that is already a member is left where it is.  Drop follows
/// the INTERPRETATION I6 of docs/C02.md (third audit, finding 5): a dropped bar that is not the first
/// of the list stays in the list - invisible if it finished with finish_and_clear, and COUNTED by the
/// index of insert / insert_from_back - until it is the first bar and a draw is painted (remove and
/// the finishing draw of a drop paint; so do the ticks at the end).
fn readd_spec(script: &[SOp]) -> (Vec<usize>, bool) {
    let mut ord: Vec<(usize, bool)> = vec![]; // (bar, dropped)
    let mut readd = false;
    fn reap(ord: &mut Vec<(usize, bool)>) {
        while ord.first().map_or(false, |x| x.1) {
            ord.remove(0);
        }
    }
    for op in script {
        let (b, pos): (usize, Option<usize>) = match op {
            SOp::Add(b) => (*b, Some(ord.len())),
            SOp::Insert(i, b) => (*b, Some((*i).min(ord.len()))),
            SOp::FromBack(i, b) => (*b, Some(ord.len().saturating_sub(*i))),
            SOp::After(r, b) => (*b, ord.iter().position(|x| x.0 == *r && !x.1).map(|p| p + 1)),
            SOp::Before(r, b) => (*b, ord.iter().position(|x| x.0 == *r && !x.1)),
            SOp::Remove(b) => {
                if ord.iter().any(|x| x.0 == *b && !x.1) {
                    ord.retain(|x| !(x.0 == *b && !x.1));
                    reap(&mut ord); // remove redraws
                }
                continue;
            }
            SOp::Drop(b) => {
                if let Some(p) = ord.iter().position(|x| x.0 == *b && !x.1) {
                    reap(&mut ord); // the finishing draw of the drop is forced and painted
                    let p = ord.iter().position(|x| x.0 == *b && !x.1).unwrap_or(p);
                    if p == 0 {
                        ord.remove(0); // mark_zombie at the head reaps at once
                    } else {
                        ord[p].1 = true;
                    }
                }
                continue;
            }
        };
        if ord.iter().any(|x| x.0 == b && !x.1) {
            readd = true;
        } else if let Some(p) = pos {
            ord.insert(p, (b, false));
        }
    }
    reap(&mut ord); // the ticks at the end paint
    (ord.iter().filter(|x| !x.1).map(|x| x.0).collect(), readd)
}

fn readd_corpus() -> Vec<Vec<SOp>> {
    vec![
        // the audit's witness: add A, add B, add A again, insert(1, C): documented order A C B
        vec![SOp::Add(0), SOp::Add(1), SOp::Add(0), SOp::Insert(1, 2)],
        // the same through the other entry points
        vec![SOp::Add(0), SOp::Add(1), SOp::Insert(0, 1), SOp::FromBack(1, 2)],
        vec![SOp::Add(0), SOp::Add(1), SOp::After(1, 0), SOp::Insert(1, 2)],
        vec![SOp::Add(0), SOp::Add(1), SOp::Before(0, 0), SOp::Insert(1, 2)],
        // third audit, finding 5 / interpretation I6: A B C; drop B (finish_and_clear: invisible, not the
        // head: stays in the list); insert(2, D) counts it: A D C
        vec![SOp::Add(0), SOp::Add(1), SOp::Add(2), SOp::Drop(1), SOp::Insert(2, 3)],
        // ... while a dropped HEAD leaves at once: drop A; insert(1, D): B D C
        vec![SOp::Add(0), SOp::Add(1), SOp::Add(2), SOp::Drop(0), SOp::Insert(1, 3)],
        // controls without a re-add (remove, then add again is a genuine add)
        vec![SOp::Add(0), SOp::Add(1), SOp::Remove(0), SOp::Add(0), SOp::Insert(1, 2)],
        vec![SOp::Add(0), SOp::Insert(0, 1), SOp::FromBack(1, 2), SOp::After(1, 3), SOp::Remove(2), SOp::Before(0, 2)],
    ]
}

fn gen_readd_script(r: &mut Rng) -> Vec<SOp> {
    let n = r.range(3, 9) as usize;
    let mut members: Vec<usize> = vec![];
    let mut dropped: Vec<usize> = vec![];
    let mut v = vec![];
    for _ in 0..n {
        let usable: Vec<usize> = (0..6).filter(|b| !dropped.contains(b)).collect();
        let free: Vec<usize> = usable.iter().copied().filter(|b| !members.contains(b)).collect();
        if usable.is_empty() {
            break;
        }
        let b = if !free.is_empty() && r.chance(2, 3) { *r.pick(&free) } else { *r.pick(&usable) };
        let op = match r.below(9) {
            0..=2 => SOp::Add(b),
            3 => SOp::Insert(r.below(5) as usize, b),
            4 => SOp::FromBack(r.below(5) as usize, b),
            5 if !members.is_empty() => SOp::After(*r.pick(&members), b),
            6 if !members.is_empty() => SOp::Before(*r.pick(&members), b),
            7 if members.contains(&b) => {
                members.retain(|x| *x != b);
                dropped.push(b);
                v.push(SOp::Drop(b));
                continue;
            }
            _ if members.contains(&b) => {
                members.retain(|x| *x != b);
                v.push(SOp::Remove(b));
                continue;
            }
            _ => SOp::Add(b),
        };
        if !members.contains(&b) {
            members.push(b);
        }
        v.push(op);
    }
    v
}

/// Runs the script on a real MultiProgress (recording terminal, no refresh limit in the way: the
/// mock clock advances 100 ms per call), ticks every member and compares the visible order of the
/// bars with the documented list semantics.
fn readd_case(s: &mut Session, script: &[SOp]) {
    use indicatif::verif_clock as vc;
    const IDS: [&str; 6] = ["A", "B", "C", "D", "E", "F"];
    let (want, readd) = readd_spec(script);
    let desc = format!("re-add family: {script:?} (re-add of a member: {readd})");
    let w = 20u16;
    let spy = Spy::new(w, 50);
    vc::set_clock_ns(vc::ORIGIN_NS);
    vc::set_auto_step_ns(0);
    let res = catch(|| {
        let mp = MultiProgress::with_draw_target(ProgressDrawTarget::term_like(Box::new(spy.clone())));
        let mut bars: Vec<Option<ProgressBar>> = IDS
            .iter()
            .map(|id| {
                let pb = ProgressBar::with_draw_target(Some(10), ProgressDrawTarget::hidden());
                pb.set_style(ProgressStyle::with_template(&format!("{id}{{pos}}")).unwrap());
                Some(pb)
            })
            .collect();
        for op in script {
            vc::advance_clock_ns(100_000_000);
            let h = |b: &usize| bars[*b].clone().expect("the script uses a dropped bar");
            match op {
                SOp::Add(b) => drop(mp.add(h(b))),
                SOp::Insert(i, b) => drop(mp.insert(*i, h(b))),
                SOp::FromBack(i, b) => drop(mp.insert_from_back(*i, h(b))),
                SOp::After(rf, b) => drop(mp.insert_after(&h(rf), h(b))),
                SOp::Before(rf, b) => drop(mp.insert_before(&h(rf), h(b))),
                SOp::Remove(b) => mp.remove(&h(b)),
                SOp::Drop(b) => drop(bars[*b].take()), // the last handle: finish_and_clear (default), then mark_zombie
            }
        }
        for pb in bars.iter().flatten() {
            vc::advance_clock_ns(100_000_000);
            pb.tick();
        }
        (mp, bars) // kept alive until the screen has been read (dropping a bar finishes it)
    });
    s.count("readd_family_runs");
    if readd {
        s.count("readd_family_runs_with_readd");
    }
    let keep = match res {
        Err(e) => {
            s.fail("readd-family-panic", e, desc.clone());
            s.oracle_only(desc, true);
            return;
        }
        Ok(k) => k,
    };
    let ops = spy.take();
    let mut vt = Vt::new(w, 50);
    vt.feed(&ops);
    let rows = vt.rows();
    let got: Vec<usize> = rows.iter().filter_map(|row| IDS.iter().position(|id| row.starts_with(id))).collect();
    if got != want {
        let detail = format!("visible order {:?}, documented order {:?}; rows {rows:?}", got.iter().map(|b| IDS[*b]).collect::<Vec<_>>(), want.iter().map(|b| IDS[*b]).collect::<Vec<_>>());
        if readd {
            // narrow class: the script adds/inserts a bar that is a member at that moment
            s.fail("member-added-twice-leaves-ghost-slot", detail, desc.clone());
        } else {
            s.fail("insert-order-mismatch", detail, desc.clone());
        }
    }
    let _ = catch(move || drop(keep));
    s.oracle_only(desc, script.len() >= 4);
}

/// Open finding D33 `torn-position-read-within-one-frame` (Coq: C02_frame_single_state_refuted).
/// Within ONE frame the position counter is read several times - `format_state` loads it once for
/// `{pos}` / `{human_pos}` / the byte keys (style.rs: `let pos = state.pos()`), `{bar}` / `{wide_bar}`
/// / `{percent}` load it again through `state.fraction()`, `{eta}` / `{per_sec}` again - while
/// `inc` / `set_position` of ANOTHER thread store it before they take the bar mutex.  Deterministic
/// exhibit: template "{pos} {slow} {percent}" (length 100); `slow` is a custom key whose write() lets
/// a second thread (holding a clone) call `inc(1)` and waits until the counter shows the store (the
/// second thread is then blocked on the bar mutex that this draw holds).  The frame reads
/// "0 s 1": position 0 and 1 % - a state the bar never had.  Oracle: in every painted frame {pos}
/// and {percent} must be consistent with ONE counter value (len = 100: equal).
fn torn_position_read_exhibit(s: &mut Session) {
    use indicatif::verif_clock as vc;
    use std::sync::atomic::{AtomicBool, Ordering};
    use std::sync::Arc;
    let desc = "torn-read exhibit: template \"{pos} {slow} {percent}\", len 100; thread 2 inc(1) on a clone while thread 1 renders `slow`".to_string();
    vc::set_clock_ns(vc::ORIGIN_NS);
    vc::set_auto_step_ns(0);
    let spy = Spy::new(30, 10);
    let go = Arc::new(AtomicBool::new(false));
    let fired = Arc::new(AtomicBool::new(false));
    let res = catch(|| {
        let (go_k, fired_k) = (go.clone(), fired.clone());
        let style = ProgressStyle::with_template("{pos} {slow} {percent}")
            .unwrap()
            .with_key("slow", move |st: &indicatif::ProgressState, w: &mut dyn std::fmt::Write| {
                if !fired_k.swap(true, Ordering::SeqCst) {
                    let before = st.pos();
                    go_k.store(true, Ordering::SeqCst); // thread 2: inc(1) now
                    let t0 = std::time::Instant::now();
                    // the store of inc() is immediate; its tick then blocks on the bar mutex this draw holds
                    while st.pos() == before && t0.elapsed() < std::time::Duration::from_secs(2) {
                        std::thread::yield_now();
                    }
                }
                let _ = w.write_str("s");
            });
        let pb = ProgressBar::with_draw_target(Some(100), ProgressDrawTarget::term_like(Box::new(spy.clone())));
        pb.set_style(style);
        let writer = {
            let (pb, go) = (pb.clone(), go.clone());
            std::thread::spawn(move || {
                while !go.load(Ordering::SeqCst) {
                    std::thread::yield_now();
                }
                pb.inc(1);
            })
        };
        pb.tick(); // thread 1 paints the first frame; `slow` releases thread 2 in the middle of it
        go.store(true, Ordering::SeqCst); // (in case the key was never rendered)
        let _ = writer.join();
        vc::advance_clock_ns(1_000_000_000);
        pb.tick();
        pb
    });
    let keep = match res {
        Err(e) => {
            s.fail("panic", e, desc.clone());
            s.oracle_only(desc, true);
            return;
        }
        Ok(k) => k,
    };
    // every painted frame: "<pos> s <percent>", len = 100 => one counter value gives pos == percent
    let mut vt = Vt::new(30, 10);
    let ops = spy.take();
    let mut start = 0;
    let mut frames = 0u64;
    let mut torn: Option<String> = None;
    for (i, o) in ops.iter().enumerate() {
        if *o != TOp::Flush {
            continue;
        }
        vt.feed(&ops[start..=i]);
        start = i + 1;
        for row in vt.rows().iter().filter(|r| !r.is_empty()) {
            let parts: Vec<&str> = row.split(' ').collect();
            if let [p, "s", q] = parts.as_slice() {
                frames += 1;
                if p != q && torn.is_none() {
                    torn = Some(format!("frame {row:?}: {{pos}} = {p} but {{percent}} = {q} (length 100): no single counter value gives both"));
                }
            }
        }
    }
    s.count_n("torn_read_exhibit_frames", frames);
    if let Some(d) = torn {
        s.fail("torn-position-read-within-one-frame", d, desc.clone());
    } else {
        s.count("torn_read_exhibit_not_torn");
    }
    let _ = catch(move || drop(keep));
    s.oracle_only(desc, true);
}

/// Coq witness C02_detached_suspend_refuted replayed on the implementation: suspend through a bar
/// that is NOT a member just runs the closure; its line lands below the live region and the next
/// draw repaints the member below it, leaving the old row above: rows "A0", "w", "A0".  This is
/// API misuse (foreign output has to go through MultiProgress::suspend or a member), the reason why
/// FitsAll excludes it; the check only confirms that model and implementation agree on the witness
/// (`detached-suspend-witness-not-reproduced` otherwise).
fn detached_suspend_witness(s: &mut Session) {
    let b = |id: &str| BarInit { len: Some(10), fin: Fin::AndLeave, tmpl: vec![TPart::Lit(id.into()), TPart::Pos], target: TInit::Hidden };
    let ms = 1_000_000u64;
    let case = Case {
        w: 6,
        h: 10,
        fail_at: vec![],
        fail_from: None,
        mp: TInit::Term(None),
        bars: vec![b("A"), b("D")],
        ops: vec![(0, Op::Insert(Loc::End, 0)), (ms, Op::Tick(0)), (2 * ms, Op::Suspend(1, vec!["w".into()])), (3 * ms, Op::Tick(0))],
    };
    let obs = run_case(&case);
    let mut vt = Vt::new(6, 10);
    for o in &obs {
        vt.feed(&o.emitted);
    }
    let rows: Vec<String> = vt.rows().into_iter().filter(|r| !r.is_empty()).collect();
    let desc = format!("detached-suspend witness (C02_detached_suspend_refuted): {}", describe(&case));
    if rows != ["A0", "w", "A0"] {
        s.fail("detached-suspend-witness-not-reproduced", format!("rows {rows:?}, the model says [\"A0\", \"w\", \"A0\"]"), desc.clone());
    }
    s.oracle_only(desc, true);
}

/// A MultiProgress on a 1 Hz / 20 Hz terminal target whose burst allowance is used up (30 ticks at
/// one instant); then, inside the rate-limit interval: some bars are finished (always painted),
/// updated AGAIN while finished (set_message / set_length / tick / set_prefix / println /
/// force_draw) and most of them dropped - the first one while it is the head of the list, so that
/// its rows become kept rows; three seconds later the survivors tick.
fn gen_finished_update_case(r: &mut Rng) -> Case {
    let w = *r.pick(&[8u16, 12, 20, 40]);
    let wu = w as usize;
    let nb = r.range(2, 4) as usize;
    let bars: Vec<BarInit> = (0..nb)
        .map(|i| BarInit { len: Some(r.below(30)), fin: gen_fin_short(r, wu), tmpl: gen_small_tmpl(r, wu, i), target: TInit::Hidden })
        .collect();
    let mut ops: Vec<(u64, Op)> = (0..nb).map(|i| (0, Op::Insert(Loc::End, i))).collect();
    let mut t = 1_000u64;
    for k in 0..30 {
        ops.push((t, Op::Tick(k % nb)));
    }
    let mut open: Vec<usize> = (0..nb).collect();
    let rounds = r.range(1, nb as u64) as usize;
    for _ in 0..rounds {
        // mostly the head of the list first (its drop keeps rows), sometimes another bar
        let k = if r.chance(3, 4) { 0 } else { r.below(open.len() as u64) as usize };
        let b = open.remove(k);
        t += 1_000;
        ops.push((t, if r.chance(1, 4) { Op::FinishUsingStyle(b) } else { Op::Finish(b, gen_fin_short(r, wu)) }));
        for _ in 0..r.range(1, 3) {
            t += r.below(3) * 1_000;
            ops.push((
                t,
                match r.below(7) {
                    0 | 1 => Op::SetMsg(b, gen_short_text(r, wu)),
                    2 => Op::SetLen(b, r.below(40)),
                    3 => Op::Tick(b),
                    4 => Op::SetPrefix(b, gen_short_text(r, 3)),
                    5 => Op::ForceDraw(b),
                    _ => Op::Println(b, gen_short_text(r, wu)),
                },
            ));
        }
        if r.chance(3, 4) {
            t += 1_000;
            ops.push((t, Op::Drop(b)));
        }
        if r.chance(1, 3) && !open.is_empty() {
            t += 1_000;
            ops.push((t, Op::Tick(*r.pick(&open)))); // refused: still inside the interval
        }
    }
    t += 3_000_000_000;
    for b in &open {
        ops.push((t, Op::Tick(*b)));
        t += 1_000;
    }
    Case { w, h: 60, fail_at: vec![], fail_from: None, mp: TInit::Term(Some(*r.pick(&[1u8, 20]))), bars, ops }
}

/// Clause 3c of C02 on the implementation (C02_interleaving: "a draw step of a finished bar is ONE
/// MultiState::draw, forced and PAINTED", whatever the refresh limiter says): after finish* every
/// call that draws the bar again (set_message, set_length, tick, set_prefix, println, force_draw)
/// must reach the terminal, and the rows on the screen right after it must contain the rendering
/// of the bar's current state.  Classes (predicates on the observation of that one call):
/// `finished-bar-update-not-painted` (no TermLike call although the MultiProgress is visible and
/// the bar is a finished member), `finished-bar-update-stale` (painted, but the bar's rows are not
/// those of its current state).
fn finished_update_oracle(s: &mut Session, case: &Case) {
    let obs = run_case(case);
    let desc = describe(case);
    let mut vt = Vt::new(case.w, case.h);
    let nb = case.bars.len();
    let mut member = vec![false; nb];
    let mut finished = vec![false; nb];
    let mut checked = 0u64;
    for ((_, op), o) in case.ops.iter().zip(obs.iter()) {
        vt.feed(&o.emitted);
        if let Some(p) = &o.panic {
            s.fail("panic", p.clone(), desc.clone());
            return;
        }
        let was_finished_member = op.bar().map_or(false, |b| member[b] && finished[b]);
        let draws = matches!(op, Op::SetMsg(..) | Op::SetLen(..) | Op::Tick(_) | Op::SetPrefix(..) | Op::ForceDraw(_) | Op::Println(..));
        if was_finished_member && draws {
            let b = op.bar().unwrap();
            checked += 1;
            if o.emitted.is_empty() {
                s.fail("finished-bar-update-not-painted", format!("{op:?} on the finished member #{b} reached no TermLike call (a draw of a finished bar is forced)"), desc.clone());
                return;
            }
            if let Some(Some(g)) = o.getters.get(b) {
                // finish_and_clear bars render nothing; otherwise every wrapped row of the rendering is on the screen, in order
                let hidden = matches!(case.ops.iter().rev().find_map(|(_, x)| match x {
                    Op::Finish(bb, f) if *bb == b => Some(f.clone()),
                    _ => None,
                }), Some(Fin::AndClear)) || (matches!(case.bars[b].fin, Fin::AndClear) && case.ops.iter().any(|(_, x)| matches!(x, Op::FinishUsingStyle(bb) if *bb == b)));
                // the spinner glyph depends on the tick count, which the getters do not expose
                if !hidden && !case.bars[b].tmpl.contains(&TPart::Spinner) {
                    let want: Vec<String> = render_expected(&case.bars[b].tmpl, g).iter().flat_map(|l| wrap_rows(l, case.w as usize)).collect();
                    let rows = vt.rows();
                    let mut it = rows.iter();
                    let all = want.iter().all(|x| it.any(|r| r.trim_end() == x.trim_end()));
                    if !all {
                        s.fail("finished-bar-update-stale", format!("after {op:?} the screen {rows:?} does not contain the rows {want:?} of the finished member #{b}"), desc.clone());
                        return;
                    }
                }
            }
        }
        match op {
            Op::Insert(_, b) => member[*b] = true,
            Op::Remove(b) | Op::Drop(b) => member[*b] = false,
            Op::Finish(b, _) | Op::FinishUsingStyle(b) => finished[*b] = true,
            Op::Reset(b) => finished[*b] = false,
            _ => {}
        }
    }
    s.count_n("finished_update_checks", checked);
}

fn corpus() -> Vec<Case> {
    let b = |tmpl: Vec<TPart>, fin| BarInit { len: Some(10), fin, tmpl, target: TInit::Hidden };
    let t = |id: &str| vec![TPart::Lit(id.into()), TPart::Pos];
    let mk = |w, bars: Vec<BarInit>, ops: Vec<(u64, Op)>| Case { w, h: 50, fail_at: vec![], fail_from: None, mp: TInit::Term(None), bars, ops };
    let ms = 1_000_000u64;
    vec![
        // D21: remove(first) then drop of an already finished new head (fixed by dbf4cde)
        mk(
            20,
            vec![b(t("A"), Fin::AndLeave), b(t("B"), Fin::AndLeave), b(t("C"), Fin::AndLeave)],
            vec![
                (0, Op::Insert(Loc::End, 0)),
                (0, Op::Insert(Loc::End, 1)),
                (0, Op::Insert(Loc::End, 2)),
                (ms, Op::Tick(0)),
                (2 * ms, Op::Tick(1)),
                (3 * ms, Op::Tick(2)),
                (4 * ms, Op::Finish(1, Fin::AndLeave)),
                (5 * ms, Op::Remove(0)),
                (6 * ms, Op::Drop(1)),
                (7 * ms, Op::Tick(2)),
                (8 * ms, Op::MPrintln("after".into())),
                (9 * ms, Op::Tick(2)),
            ],
        ),
        // every insert variant, clamped indices, slot reuse after removal
        mk(
            12,
            vec![b(t("A"), Fin::AndLeave), b(t("B"), Fin::AndClear), b(t("C"), Fin::Abandon), b(t("D"), Fin::AndLeave), b(t("E"), Fin::AndLeave)],
            vec![
                (0, Op::Insert(Loc::End, 0)),
                (ms, Op::Insert(Loc::Index(0), 1)),
                (2 * ms, Op::Insert(Loc::FromBack(1), 2)),
                (3 * ms, Op::Insert(Loc::After(1), 3)),
                (4 * ms, Op::Tick(0)),
                (5 * ms, Op::Tick(1)),
                (6 * ms, Op::Tick(2)),
                (7 * ms, Op::Tick(3)),
                (8 * ms, Op::Remove(2)),
                (9 * ms, Op::Insert(Loc::Before(0), 4)),
                (10 * ms, Op::Tick(4)),
                (11 * ms, Op::Insert(Loc::Index(99), 2)),
                (12 * ms, Op::Tick(2)),
                (13 * ms, Op::Remove(1)),
                (14 * ms, Op::Insert(Loc::FromBack(99), 1)),
                (15 * ms, Op::Tick(1)),
                (16 * ms, Op::Drop(3)),
                (17 * ms, Op::Drop(1)),
                (18 * ms, Op::Drop(4)),
                (19 * ms, Op::Tick(0)),
            ],
        ),
        // bottom alignment: shrunken frame, then println of a member (fixed by 951c29f)
        mk(
            40,
            vec![b(t("a"), Fin::AndClear), b(t("b"), Fin::AndClear), b(t("c"), Fin::AndClear)],
            vec![
                (0, Op::SetAlign(true)),
                (0, Op::Insert(Loc::End, 0)),
                (0, Op::Insert(Loc::End, 1)),
                (0, Op::Insert(Loc::End, 2)),
                (ms, Op::Tick(0)),
                (2 * ms, Op::Tick(1)),
                (3 * ms, Op::Tick(2)),
                (4 * ms, Op::Remove(0)),
                (5 * ms, Op::Finish(1, Fin::AndClear)),
                (6 * ms, Op::Println(2, "x".into())),
                (7 * ms, Op::Tick(2)),
                (8 * ms, Op::MPrintln("y".into())),
                (9 * ms, Op::Tick(2)),
            ],
        ),
        // zombie behind the head waits, is reaped with Keep(rows) once it reaches the head, kept rows
        // are erased by the next println
        mk(
            20,
            vec![b(t("A"), Fin::AndLeave), b(t("B"), Fin::WithMessage("done".into())), b(t("C"), Fin::AndLeave)],
            vec![
                (0, Op::Insert(Loc::End, 0)),
                (0, Op::Insert(Loc::End, 1)),
                (0, Op::Insert(Loc::End, 2)),
                (ms, Op::Tick(0)),
                (2 * ms, Op::Drop(1)),
                (3 * ms, Op::Tick(2)),
                (4 * ms, Op::Drop(0)),
                (5 * ms, Op::Tick(2)),
                (6 * ms, Op::MPrintln("log".into())),
                (7 * ms, Op::Tick(2)),
                (8 * ms, Op::Drop(2)),
            ],
        ),
    ]
}

/// Real threads update three member bars concurrently (inc, then finish), one more thread prints
/// log lines.  Even runs: ONE updater thread per bar (the hypothesis of C02_interleaving); odd
/// runs: TWO updater threads per bar on clones of the bar (what ParallelProgressIterator does) -
/// outside AtomicExec (the position store and the position limiter run before the bar mutex:
/// C02_pos_sections_two_writers_refuted), the property's clause must hold all the same.  Every painted frame is reconstructed from the recorded TermLike calls; per
/// bar the shown position must be a value the bar had (0..=N), never smaller than the one shown
/// before, the bars appear in logical order below the log lines, and the last frame shows the
/// final positions.  Not compared with the model (schedules are not replayable).
fn thread_stress(s: &mut Session, r: &mut Rng, k: u64) {
    use indicatif::verif_clock as vc;
    vc::set_clock_ns(vc::ORIGIN_NS);
    vc::set_auto_step_ns(200_000);
    let w = 30u16;
    let spy = Spy::new(w, 200);
    let bottom = k % 3 == 2;
    let per_thread: u64 = 20 + r.below(60);
    let writers: u64 = if k % 2 == 1 { 2 } else { 1 };
    let n_inc: u64 = per_thread * writers; // final position of every bar
    let desc = format!("thread-stress run {k}: 3 bars x {writers} updater thread(s) x {per_thread} inc, 1 println thread, bottom={bottom}");
    let res = catch(|| {
        let mp = MultiProgress::with_draw_target(ProgressDrawTarget::term_like(Box::new(spy.clone())));
        if bottom {
            mp.set_alignment(MultiProgressAlignment::Bottom);
        }
        let bars: Vec<ProgressBar> = ["A", "B", "C"]
            .iter()
            .map(|id| {
                let pb = mp.add(ProgressBar::new(n_inc));
                pb.set_style(ProgressStyle::with_template(&format!("{id}{{pos}}")).unwrap());
                pb
            })
            .collect();
        let mut hs = vec![];
        let mut updaters = vec![];
        for pb in bars.iter() {
            for _ in 0..writers {
                let pb = pb.clone();
                updaters.push(std::thread::spawn(move || {
                    for _ in 0..per_thread {
                        pb.inc(1);
                    }
                    if writers == 1 {
                        pb.finish();
                    }
                }));
            }
        }
        let mp2 = mp.clone();
        hs.push(std::thread::spawn(move || {
            for i in 0..5 {
                let _ = mp2.println(format!("log{i}"));
            }
        }));
        for h in updaters {
            h.join().map_err(|_| "thread panicked".to_string())?;
        }
        if writers == 2 {
            // all writers of a bar are done: its position is final; finish paints it
            for pb in &bars {
                pb.finish();
            }
        }
        for h in hs {
            h.join().map_err(|_| "thread panicked".to_string())?;
        }
        drop(bars);
        Ok::<(), String>(())
    });
    vc::set_auto_step_ns(0);
    s.count("thread_stress_runs");
    if writers == 2 {
        s.count("thread_stress_runs_two_writers_per_bar");
    }
    match res {
        Err(e) | Ok(Err(e)) => {
            s.fail("thread-stress-panic", e, desc.clone());
            s.oracle_only(desc, true);
            return;
        }
        Ok(Ok(())) => {}
    }
    let ops = spy.take();
    let mut vt = Vt::new(w, 200);
    let mut last = [0u64; 3];
    let mut frames = 0u64;
    let mut bad: Option<String> = None;
    let mut start = 0;
    for (i, o) in ops.iter().enumerate() {
        if *o != TOp::Flush {
            continue;
        }
        vt.feed(&ops[start..=i]);
        start = i + 1;
        frames += 1;
        let rows = vt.rows();
        let mut logs: Vec<&String> = vec![];
        let mut seen: Vec<(usize, u64)> = vec![];
        for row in rows.iter().filter(|x| !x.is_empty()) {
            if row.starts_with("log") {
                if !seen.is_empty() {
                    bad = Some(format!("frame {frames}: log line {row:?} below a bar: {rows:?}"));
                }
                logs.push(row);
            } else if let Some(b) = ["A", "B", "C"].iter().position(|id| row.starts_with(id)) {
                match row[1..].parse::<u64>() {
                    Ok(v) => seen.push((b, v)),
                    Err(_) => bad = Some(format!("frame {frames}: garbled row {row:?}")),
                }
            } else {
                bad = Some(format!("frame {frames}: foreign row {row:?} in {rows:?}"));
            }
        }
        for (j, l) in logs.iter().enumerate() {
            if **l != format!("log{j}") {
                bad = Some(format!("frame {frames}: log lines out of order / duplicated: {logs:?}"));
            }
        }
        if seen.windows(2).any(|p| p[0].0 >= p[1].0) {
            bad = Some(format!("frame {frames}: bars out of order or shown twice: {seen:?}"));
        }
        for (b, v) in &seen {
            if *v > n_inc || *v < last[*b] {
                bad = Some(format!("frame {frames}: bar {b} shows {v} after {} (max {n_inc})", last[*b]));
            }
            last[*b] = *v;
        }
        if bad.is_some() {
            break;
        }
    }
    if bad.is_none() {
        if last != [n_inc; 3] {
            bad = Some(format!("last frame shows {last:?}, final positions are {n_inc}"));
        }
        let rows = vt.rows();
        if (0..5).any(|j| !rows.iter().any(|x| *x == format!("log{j}"))) {
            bad = Some(format!("a printed line is missing at the end: {rows:?}"));
        }
    }
    s.count_n("thread_stress_frames", frames);
    if let Some(d) = bad {
        s.fail("thread-stress-frame", d, desc.clone());
    }
    s.oracle_only(desc, true);
}
