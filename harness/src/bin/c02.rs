//! C02 – MultiProgress shows every member once, in logical order, below the log.
//! Correspondence with model/Sys.v on multi-bar histories + the screen oracle (sysoracle.rs).
use verif_harness::sysoracle::*;
use verif_harness::sysrun::*;
use verif_harness::*;

fn main() {
    let a = args();
    let mut s = Session::new(&a, "C02", COQ_HEADER, COQ_CASE_TY, COQ_CHECKER);
    s.shard_size = 120;
    s.rule = "histories over one MultiProgress on a recording terminal with 1..5 bars: add/insert/insert_from_back/insert_before/insert_after/remove/set_alignment/drop, tick/inc/set_position/set_message/set_length/reset/force_draw, finish*/abandon*/finish_using_style, println (multi and member), suspend, clear; every ProgressFinish; widths 1..40; gaps >= 1 ms (no limiter exhaustion here, see C03/C04); non-trivial = at least 2 bars added and 5 ops; distinct = distinct case text".into();
    let mut r = Rng::new(a.seed);
    let cfg = GenCfg::default_multi();
    let n = if a.thorough { 6000 } else if a.extended { 3000 } else { 500 };
    let mut cases = vec![];
    for _ in 0..n {
        cases.push(gen_multi_case(&mut r, &cfg));
    }
    run_sys_cases(&mut s, &cases, &|c, _| c.ops.iter().filter(|(_, o)| matches!(o, Op::Insert(..))).count() >= 2 && c.ops.len() >= 5);
    s.finish();
}

