//! Cross-validation of the reference terminal `sysrun::Vt` (mirror of coq/model/Term.v) against the
//! vt100 crate: random TermLike call streams, visible rows and cursor must agree after every call.
use verif_harness::spy::TOp;
use verif_harness::sysrun::*;
use verif_harness::*;

fn main() {
    let a = args();
    let mut r = Rng::new(a.seed);
    let n = if a.thorough { 20000 } else { 3000 };
    let mut bad = 0;
    let mut steps = 0u64;
    for case in 0..n {
        let w = r.range(1, 12) as u16;
        let h = r.range(2, 8) as u16; // the vt100 crate overflows on 1-row terminals (debug)
        let mut a1 = Vt100::new(w, h);
        let mut a2 = Vt::new(w, h);
        let len = r.range(1, 60);
        let mut hist = vec![];
        for _ in 0..len {
            let k = r.below(2 * w as u64 + 2) as usize;
            let op = match r.below(10) {
                0 => TOp::Up(r.below(5) as usize),
                1 => TOp::Down(r.below(4) as usize),
                2 => TOp::Clear,
                3..=4 => TOp::Line(gen_word(&mut r, k)),
                5..=8 => TOp::Str(gen_word(&mut r, k)),
                _ => TOp::Flush,
            };
            hist.push(op.clone());
            a1.feed(&[op.clone()]);
            a2.feed(&[op]);
            steps += 1;
            let (r1, c1) = a1.cursor();
            let (r2, c2) = a2.cursor();
            let same = a1.visible_rows() == a2.visible_rows() && r1 + a2.top == r2 && c1 == c2;
            if !same {
                bad += 1;
                if bad <= 5 {
                    println!(
                        "MISMATCH case {case} W={w} H={h} after {:?}\n vt100 rows {:?} cursor {:?}\n model rows {:?} cursor {:?} top {}",
                        hist,
                        a1.visible_rows(),
                        (r1, c1),
                        a2.visible_rows(),
                        (r2, c2),
                        a2.top
                    );
                }
                break;
            }
        }
    }
    println!("termcheck: {n} streams, {steps} calls, {bad} mismatches");
    std::process::exit(if bad == 0 { 0 } else { 1 });
}
