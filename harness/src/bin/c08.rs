//! C08 – no deadlock; steady-tick thread lifecycle.
//!
//! There is no lock instrumentation in /repo; the tie to model/Locks.v has two halves:
//!  (a) static: tools/locks_extract.py regenerates coq/gen/LockFootprints.v from the Rust source and
//!      props/C08.v proves `Ordered` about that table;
//!  (b) dynamic (this file): real threads call the public API on shared handles under a watchdog
//!      (a scenario that does not finish is a deadlock candidate), the ticker-lifecycle oracle
//!      watches the ticker thread through /proc/self/task, the screen of an InMemoryTerm and
//!      WeakProgressBar::upgrade; every executed scenario is also looked up in the GENERATED structured
//!      table (c08_check_p): the model must know every call by name, every called program must be
//!      prog_ordered, and the pool built from one canonical path per call must be well-formed and run
//!      to completion.  That replay is a sanity check against table drift, NOT evidence that the
//!      footprints are what the compiled code does (a well-formed pool always completes).
use indicatif::{InMemoryTerm, MultiProgress, ProgressBar, ProgressDrawTarget, ProgressStyle};
use std::collections::BTreeSet;
use std::sync::mpsc;
use std::time::{Duration, Instant};
use verif_harness::*;

const WATCHDOG: Duration = Duration::from_secs(6);
/// watchdog expirations so far; blocked threads are leaked, so after a few the run is cut short
static EXPIRED: std::sync::atomic::AtomicU32 = std::sync::atomic::AtomicU32::new(0);
const MAX_EXPIRED: u32 = 6;
fn expired() -> u32 {
    EXPIRED.load(std::sync::atomic::Ordering::SeqCst)
}
const HOUR_MS: u64 = 3_600_000;

// ------------------------------------------------------------------ thread observation
fn tids() -> BTreeSet<u64> {
    let mut s = BTreeSet::new();
    if let Ok(rd) = std::fs::read_dir("/proc/self/task") {
        for e in rd.flatten() {
            if let Ok(t) = e.file_name().to_string_lossy().parse::<u64>() {
                s.insert(t);
            }
        }
    }
    s
}

/// poll until `f` holds or `ms` elapsed (real time: condvar time-outs are real time)
fn wait_until(ms: u64, mut f: impl FnMut() -> bool) -> bool {
    let t0 = Instant::now();
    loop {
        if f() {
            return true;
        }
        if t0.elapsed() > Duration::from_millis(ms) {
            return false;
        }
        std::thread::sleep(Duration::from_micros(500));
    }
}

/// run `f` on a helper thread; None if it does not return within the watchdog time
fn watchdog<R: Send + 'static>(f: impl FnOnce() -> R + Send + 'static) -> Option<R> {
    let (tx, rx) = mpsc::channel();
    std::thread::Builder::new()
        .name("c08-wd".into())
        .spawn(move || {
            let r = catch(f);
            let _ = tx.send(r);
        })
        .unwrap();
    match rx.recv_timeout(WATCHDOG) {
        Ok(Ok(r)) => Some(r),
        Ok(Err(_)) => None,
        Err(_) => {
            EXPIRED.fetch_add(1, std::sync::atomic::Ordering::SeqCst);
            None
        }
    }
}

// ------------------------------------------------------------------ scenarios
#[derive(Clone, Copy, Debug, PartialEq)]
enum Target {
    Hidden,
    Mem,
    Multi,
}

#[derive(Clone, Debug)]
enum Op {
    Inc(usize),
    SetPosition(usize),
    Tick(usize),
    Update(usize),
    SetMessage(usize),
    SetLength(usize),
    Println(usize),
    Suspend(usize),
    Finish(usize, u8),
    Reset(usize),
    Enable(usize, u64),
    Disable(usize),
    CloneDrop(usize),
    DropHandle(usize),
    IsHidden(usize),
    Position(usize),
    ForceDraw(usize),
    SetHidden(usize),
    MpPrintln,
    MpClear,
    MpSuspend,
    MpIsHidden,
    MpRemove(usize),
    MpAdd(usize),
    MpSetMoveCursor,
    /// insert(index, bar) / insert_from_back(index, bar): re-inserts a bar of this MultiProgress
    MpInsert(usize, usize),
    MpInsertFromBack(usize, usize),
    /// insert_before / insert_after(anchor = bar 0, bar): bar 0 is never detached in a Multi scenario, so
    /// `anchor.index().unwrap()` cannot fail (a vanished anchor is finding D30 of C02, not a C08 matter)
    MpInsertBefore(usize),
    MpInsertAfter(usize),
    /// remove(bar) then add(bar): add() of a member is a no-op since bee77c9, this takes the full path
    MpReAdd(usize),
}

impl Op {
    fn bar(&self) -> Option<usize> {
        use Op::*;
        match self {
            Inc(b) | SetPosition(b) | Tick(b) | Update(b) | SetMessage(b) | SetLength(b) | Println(b)
            | Suspend(b) | Finish(b, _) | Reset(b) | Enable(b, _) | Disable(b) | CloneDrop(b)
            | DropHandle(b) | IsHidden(b) | Position(b) | ForceDraw(b) | SetHidden(b) | MpRemove(b)
            | MpAdd(b) | MpInsert(b, _) | MpInsertFromBack(b, _) | MpInsertBefore(b) | MpInsertAfter(b)
            | MpReAdd(b) => Some(*b),
            _ => None,
        }
    }
    /// names of the generated footprints this op executes, in order
    fn calls(&self) -> Vec<&'static str> {
        use Op::*;
        match self {
            Inc(_) => vec!["ProgressBar::inc"],
            SetPosition(_) => vec!["ProgressBar::set_position"],
            Tick(_) => vec!["ProgressBar::tick"],
            Update(_) => vec!["ProgressBar::update"],
            SetMessage(_) => vec!["ProgressBar::set_message"],
            SetLength(_) => vec!["ProgressBar::set_length"],
            Println(_) => vec!["ProgressBar::println"],
            Suspend(_) => vec!["ProgressBar::suspend"],
            Finish(_, 0) => vec!["ProgressBar::finish"],
            Finish(_, 1) => vec!["ProgressBar::finish_with_message"],
            Finish(_, 2) => vec!["ProgressBar::finish_and_clear"],
            Finish(_, 3) => vec!["ProgressBar::abandon"],
            Finish(_, 4) => vec!["ProgressBar::abandon_with_message"],
            Finish(_, _) => vec!["ProgressBar::finish_using_style"],
            Reset(_) => vec!["ProgressBar::reset"],
            Enable(_, _) => vec!["ProgressBar::enable_steady_tick"],
            Disable(_) => vec!["ProgressBar::disable_steady_tick"],
            CloneDrop(_) => vec!["ProgressBar::clone", "ProgressBar::drop"],
            DropHandle(_) => vec!["ProgressBar::drop"],
            IsHidden(_) => vec!["ProgressBar::is_hidden"],
            Position(_) => vec!["ProgressBar::position"],
            ForceDraw(_) => vec!["ProgressBar::force_draw"],
            SetHidden(_) => vec!["ProgressBar::set_draw_target"],
            MpPrintln => vec!["MultiProgress::println"],
            MpClear => vec!["MultiProgress::clear"],
            MpSuspend => vec!["MultiProgress::suspend"],
            MpIsHidden => vec!["MultiProgress::is_hidden"],
            MpRemove(_) => vec!["MultiProgress::remove"],
            MpAdd(_) => vec!["MultiProgress::add"],
            MpSetMoveCursor => vec!["MultiProgress::set_move_cursor"],
            MpInsert(..) => vec!["ProgressBar::clone", "MultiProgress::insert", "ProgressBar::drop"],
            MpInsertFromBack(..) => vec!["ProgressBar::clone", "MultiProgress::insert_from_back", "ProgressBar::drop"],
            MpInsertBefore(_) => vec!["ProgressBar::clone", "MultiProgress::insert_before", "ProgressBar::drop"],
            MpInsertAfter(_) => vec!["ProgressBar::clone", "MultiProgress::insert_after", "ProgressBar::drop"],
            MpReAdd(_) => vec!["MultiProgress::remove", "ProgressBar::clone", "MultiProgress::add", "ProgressBar::drop"],
        }
    }
    fn text(&self) -> String {
        format!("{self:?}")
    }
}

#[derive(Clone, Debug)]
struct Scenario {
    target: Target,
    nbars: usize,
    /// steady tick installed by the main thread before the workers start (ms), per bar
    initial: Vec<Option<u64>>,
    threads: Vec<Vec<Op>>,
}

impl Scenario {
    fn text(&self) -> String {
        format!(
            "target={:?} bars={} initial_ticker_ms={:?} threads=[{}]",
            self.target,
            self.nbars,
            self.initial,
            self.threads
                .iter()
                .map(|t| format!("[{}]", t.iter().map(|o| o.text()).collect::<Vec<_>>().join(",")))
                .collect::<Vec<_>>()
                .join(" | ")
        )
    }
}

const INTERVALS: [u64; 6] = [1, 2, 5, 50, 1000, HOUR_MS];

fn gen_op(r: &mut Rng, nbars: usize, multi: bool) -> Op {
    let b = r.below(nbars as u64) as usize;
    let k = if multi { r.below(37) } else { r.below(23) };
    match k {
        0..=2 => Op::Inc(b),
        3 => Op::SetPosition(b),
        4..=5 => Op::Tick(b),
        6..=8 => Op::Update(b),
        9 => Op::SetMessage(b),
        10 => Op::Println(b),
        11 => Op::Suspend(b),
        12 => Op::Finish(b, r.below(6) as u8),
        13 => Op::Reset(b),
        14..=16 => Op::Enable(b, *r.pick(&INTERVALS)),
        17..=18 => Op::Disable(b),
        19 => Op::CloneDrop(b),
        20 => Op::DropHandle(b),
        21 => match r.below(4) {
            0 => Op::IsHidden(b),
            1 => Op::Position(b),
            2 => Op::SetLength(b),
            _ => Op::ForceDraw(b),
        },
        22 => {
            if r.chance(1, 4) {
                Op::SetHidden(b)
            } else {
                Op::Inc(b)
            }
        }
        23 => Op::MpPrintln,
        24 => Op::MpClear,
        25 => Op::MpSuspend,
        26 => Op::MpIsHidden,
        27 => Op::MpRemove(b),
        28 => Op::MpAdd(b),
        29 => Op::MpSetMoveCursor,
        30 => Op::MpInsert(b, r.below(4) as usize),
        31 => Op::MpInsertFromBack(b, r.below(4) as usize),
        32..=33 => Op::MpInsertBefore(b),
        34 => Op::MpInsertAfter(b),
        _ => Op::MpReAdd(b),
    }
}

/// in a Multi scenario with at least two bars, bar 0 is the anchor of insert_before/after: it is never
/// detached (remove / set_draw_target / re-insertion) and never inserted relative to itself
fn protect_anchor(op: Op, nbars: usize) -> Op {
    use Op::*;
    if nbars < 2 {
        return match op {
            MpInsertBefore(_) | MpInsertAfter(_) => MpPrintln,
            o => o,
        };
    }
    match op {
        MpRemove(0) => MpRemove(1),
        SetHidden(0) => SetHidden(1),
        MpReAdd(0) => MpReAdd(1),
        MpAdd(0) => MpAdd(1),
        MpInsert(0, i) => MpInsert(1, i),
        MpInsertFromBack(0, i) => MpInsertFromBack(1, i),
        MpInsertBefore(0) => MpInsertBefore(1),
        MpInsertAfter(0) => MpInsertAfter(1),
        o => o,
    }
}

fn gen_scenario(r: &mut Rng) -> Scenario {
    let target = match r.below(5) {
        0 => Target::Hidden,
        1 => Target::Mem,
        _ => Target::Multi,
    };
    let nbars = r.range(1, 3) as usize;
    let initial = (0..nbars)
        .map(|_| if r.chance(2, 3) { Some(*r.pick(&INTERVALS)) } else { None })
        .collect();
    let nthreads = r.range(2, 3) as usize;
    let threads = (0..nthreads)
        .map(|_| {
            let n = r.range(1, 5);
            (0..n)
                .map(|_| {
                    let op = gen_op(r, nbars, target == Target::Multi);
                    if target == Target::Multi {
                        protect_anchor(op, nbars)
                    } else {
                        op
                    }
                })
                .collect()
        })
        .collect();
    Scenario { target, nbars, initial, threads }
}

fn style(draws: std::sync::Arc<std::sync::atomic::AtomicU64>) -> ProgressStyle {
    let ticks: Vec<String> = (0..60).map(|i| format!("{i:02}")).chain(["XX".to_string()]).collect();
    let refs: Vec<&str> = ticks.iter().map(|s| s.as_str()).collect();
    ProgressStyle::with_template("{spinner} {msg} {pos}/{len} {cb}")
        .unwrap()
        .tick_strings(&refs)
        // a user callback that does not re-enter the library (the property's proviso)
        .with_key("cb", move |_: &indicatif::ProgressState, w: &mut dyn std::fmt::Write| {
            draws.fetch_add(1, std::sync::atomic::Ordering::SeqCst);
            let _ = w.write_str("cb");
        })
}

fn apply(op: &Op, bars: &mut [Option<ProgressBar>], mp: &Option<MultiProgress>) {
    use Op::*;
    let pb = op.bar().and_then(|b| bars[b].clone());
    match (op, pb) {
        (Inc(_), Some(p)) => p.inc(1),
        (SetPosition(_), Some(p)) => p.set_position(7),
        (Tick(_), Some(p)) => p.tick(),
        (Update(_), Some(p)) => p.update(|s| s.set_pos(s.pos().wrapping_add(1))),
        (SetMessage(_), Some(p)) => p.set_message("m"),
        (SetLength(_), Some(p)) => p.set_length(50),
        (Println(_), Some(p)) => p.println("log"),
        (Suspend(_), Some(p)) => p.suspend(|| {
            std::hint::black_box(1);
        }),
        (Finish(_, 0), Some(p)) => p.finish(),
        (Finish(_, 1), Some(p)) => p.finish_with_message("done"),
        (Finish(_, 2), Some(p)) => p.finish_and_clear(),
        (Finish(_, 3), Some(p)) => p.abandon(),
        (Finish(_, 4), Some(p)) => p.abandon_with_message("ab"),
        (Finish(_, _), Some(p)) => p.finish_using_style(),
        (Reset(_), Some(p)) => p.reset(),
        (Enable(_, ms), Some(p)) => p.enable_steady_tick(Duration::from_millis(*ms)),
        (Disable(_), Some(p)) => p.disable_steady_tick(),
        (CloneDrop(_), Some(p)) => drop(p.clone()),
        (DropHandle(b), Some(_)) => bars[*b] = None,
        (IsHidden(_), Some(p)) => {
            let _ = p.is_hidden();
        }
        (Position(_), Some(p)) => {
            let _ = p.position();
        }
        (ForceDraw(_), Some(p)) => p.force_draw(),
        (SetHidden(_), Some(p)) => p.set_draw_target(ProgressDrawTarget::hidden()),
        (MpRemove(_), Some(p)) => {
            if let Some(m) = mp {
                m.remove(&p)
            }
        }
        (MpAdd(_), Some(p)) => {
            if let Some(m) = mp {
                let _ = m.add(p.clone());
            }
        }
        (MpInsert(_, i), Some(p)) => {
            if let Some(m) = mp {
                let _ = m.insert(*i, p.clone());
            }
        }
        (MpInsertFromBack(_, i), Some(p)) => {
            if let Some(m) = mp {
                let _ = m.insert_from_back(*i, p.clone());
            }
        }
        (MpInsertBefore(_), Some(p)) => {
            if let (Some(m), Some(a)) = (mp, bars[0].clone()) {
                let _ = m.insert_before(&a, p.clone());
            }
        }
        (MpInsertAfter(_), Some(p)) => {
            if let (Some(m), Some(a)) = (mp, bars[0].clone()) {
                let _ = m.insert_after(&a, p.clone());
            }
        }
        (MpReAdd(_), Some(p)) => {
            if let Some(m) = mp {
                m.remove(&p);
                let _ = m.add(p.clone());
            }
        }
        (MpPrintln, _) => {
            if let Some(m) = mp {
                let _ = m.println("mp log");
            }
        }
        (MpClear, _) => {
            if let Some(m) = mp {
                let _ = m.clear();
            }
        }
        (MpSuspend, _) => {
            if let Some(m) = mp {
                m.suspend(|| {
                    std::hint::black_box(2);
                })
            }
        }
        (MpIsHidden, _) => {
            if let Some(m) = mp {
                let _ = m.is_hidden();
            }
        }
        (MpSetMoveCursor, _) => {
            if let Some(m) = mp {
                m.set_move_cursor(false)
            }
        }
        (_, None) => {} // this thread has dropped its handle of that bar
    }
}

struct Outcome {
    completed: bool,
    stuck: String,
    panics: Vec<String>,
    leftover_threads: usize,
}

fn run_scenario(sc: &Scenario) -> Outcome {
    let before = tids();
    let draws = std::sync::Arc::new(std::sync::atomic::AtomicU64::new(0));
    let term = InMemoryTerm::new(12, 60);
    let mp = match sc.target {
        Target::Multi => Some(MultiProgress::with_draw_target(ProgressDrawTarget::term_like(Box::new(term.clone())))),
        _ => None,
    };
    let mut bars: Vec<ProgressBar> = vec![];
    for _ in 0..sc.nbars {
        let t = match sc.target {
            Target::Mem => ProgressDrawTarget::term_like(Box::new(InMemoryTerm::new(4, 60))),
            _ => ProgressDrawTarget::hidden(),
        };
        let pb = ProgressBar::with_draw_target(Some(100), t).with_style(style(draws.clone()));
        let pb = match &mp {
            Some(m) => m.add(pb),
            None => pb,
        };
        bars.push(pb);
    }
    for (b, iv) in sc.initial.iter().enumerate() {
        if let Some(ms) = iv {
            bars[b].enable_steady_tick(Duration::from_millis(*ms));
        }
    }
    let (tx, rx) = mpsc::channel::<(usize, Vec<String>)>();
    for (ti, ops) in sc.threads.iter().enumerate() {
        let ops = ops.clone();
        let mut mine: Vec<Option<ProgressBar>> = bars.iter().map(|b| Some(b.clone())).collect();
        let mpc = mp.clone();
        let tx = tx.clone();
        std::thread::Builder::new()
            .name(format!("c08-t{ti}"))
            .spawn(move || {
                let mut panics = vec![];
                for (i, op) in ops.iter().enumerate() {
                    if let Err(e) = catch(|| apply(op, &mut mine, &mpc)) {
                        panics.push(format!("thread {ti} op #{i} {}: {e}", op.text()));
                    }
                }
                if let Err(e) = catch(move || drop(mine)) {
                    panics.push(format!("thread {ti} dropping its handles: {e}"));
                }
                let _ = tx.send((ti, panics));
            })
            .unwrap();
    }
    drop(tx);
    let deadline = Instant::now() + WATCHDOG;
    let mut finished = vec![false; sc.threads.len()];
    let mut panics = vec![];
    while finished.iter().any(|f| !f) {
        let left = deadline.saturating_duration_since(Instant::now());
        match rx.recv_timeout(left) {
            Ok((ti, p)) => {
                finished[ti] = true;
                panics.extend(p);
            }
            Err(_) => break,
        }
    }
    let mut stuck: Vec<String> =
        finished.iter().enumerate().filter(|(_, f)| !**f).map(|(i, _)| format!("thread {i}")).collect();
    let mut completed = stuck.is_empty();
    if !completed {
        EXPIRED.fetch_add(1, std::sync::atomic::Ordering::SeqCst);
    }
    if completed {
        // the main thread drops the last handles: joins every ticker that is still installed
        match watchdog(move || {
            drop(bars);
            drop(mp);
        }) {
            Some(()) => {}
            None => {
                completed = false;
                stuck.push("main thread dropping the last handles".into());
            }
        }
    } else {
        std::mem::forget(bars);
        std::mem::forget(mp);
    }
    // every ticker thread must be gone once all handles are dropped
    let mut leftover = 0;
    if completed {
        let gone = wait_until(2000, || tids().difference(&before).count() == 0);
        if !gone {
            leftover = tids().difference(&before).count();
        }
    }
    Outcome { completed, stuck: stuck.join(", "), panics, leftover_threads: leftover }
}

/// the scenario as a Coq term for c08_check_p (see model/Locks.v part 6)
fn scenario_coq(sc: &Scenario, seed: u64, completed: bool) -> String {
    let nu = sc.threads.len() + 1; // model thread 0 = the main thread
    let m_of = |_b: usize| 0usize;
    // one pool thread per bar to begin with: the linearised footprints of disable_steady_tick() and
    // enable_steady_tick() both contain the Spawn (`interval.map(|i| Ticker::new(..))`), it needs a target
    let mut workers: Vec<(usize, usize)> = (0..sc.nbars).map(|b| (b, m_of(b))).collect();
    let mut cur: Vec<Option<usize>> = (0..sc.nbars).map(|b| Some(nu + b)).collect();
    let call = |name: &str, b: usize, k: usize| format!("(\"{name}\"%string, {b}, {}, {k})", m_of(b));
    let mut main_prog = vec![];
    for (b, iv) in sc.initial.iter().enumerate() {
        if iv.is_some() {
            let k = nu + workers.len();
            workers.push((b, m_of(b)));
            cur[b] = Some(k);
            main_prog.push(call("ProgressBar::enable_steady_tick", b, k));
        }
    }
    let mut users = vec![];
    for ops in &sc.threads {
        let mut prog = vec![];
        let mut have = vec![true; sc.nbars];
        for op in ops {
            let b = op.bar().unwrap_or(0);
            if op.bar().is_some() && !have[b] {
                continue;
            }
            if let Op::DropHandle(b) = op {
                have[*b] = false;
            }
            let k = match op {
                Op::Enable(..) => {
                    let k = nu + workers.len();
                    workers.push((b, m_of(b)));
                    cur[b] = Some(k);
                    k
                }
                _ => cur[b].unwrap_or(nu),
            };
            if matches!(op, Op::MpRemove(_) | Op::MpAdd(_)) && sc.target != Target::Multi {
                continue;
            }
            if let Op::MpAdd(_) = op {
                prog.push(call("ProgressBar::clone", b, k));
            }
            for name in op.calls() {
                prog.push(call(name, b, k));
            }
            if let Op::MpAdd(_) = op {
                prog.push(call("ProgressBar::drop", b, k));
            }
            if matches!(op, Op::MpInsertBefore(_) | Op::MpInsertAfter(_)) && !have[0] {
                // the thread has dropped its handle of the anchor: the op is a no-op at run time
                for _ in 0..3 {
                    prog.pop();
                }
            }
        }
        for b in 0..sc.nbars {
            if have[b] {
                prog.push(call("ProgressBar::drop", b, cur[b].unwrap_or(nu)));
            }
        }
        users.push(prog);
    }
    for b in 0..sc.nbars {
        main_prog.push(call("ProgressBar::drop", b, cur[b].unwrap_or(nu)));
    }
    main_prog.push(call("MultiProgress::drop", 0, nu));
    let mut all = vec![clist(main_prog)];
    all.extend(users.into_iter().map(clist));
    format!(
        "CScenario {} {} 2 {} {}",
        clist(all),
        clist(workers.iter().map(|(b, m)| format!("({b}, {m})"))),
        seed % 1000,
        cbool(completed)
    )
}

// ------------------------------------------------------------------ ticker lifecycle
#[derive(Clone, Copy, Debug, PartialEq)]
enum Ev {
    Disable,
    Replace,
    DropLast,
    Finish(u8),
}

fn ev_coq(e: Ev) -> &'static str {
    match e {
        Ev::Disable => "EvDisable",
        Ev::Replace => "EvReplace",
        Ev::DropLast => "EvDropLast",
        Ev::Finish(_) => "EvFinish",
    }
}

const WINDOW_MS: u64 = 400;

/// enable a ticker with `interval_ms`, let it park in its wait, fire the event, watch its thread
fn lifecycle(s: &mut Session, ev: Ev, interval_ms: u64, target: Target) {
    let desc = format!("lifecycle event={ev:?} interval_ms={interval_ms} target={target:?}");
    let draws = std::sync::Arc::new(std::sync::atomic::AtomicU64::new(0));
    let term = InMemoryTerm::new(8, 60);
    let mp = match target {
        Target::Multi => Some(MultiProgress::with_draw_target(ProgressDrawTarget::term_like(Box::new(term.clone())))),
        _ => None,
    };
    let t = match target {
        Target::Mem => ProgressDrawTarget::term_like(Box::new(term.clone())),
        _ => ProgressDrawTarget::hidden(),
    };
    let pb = ProgressBar::with_draw_target(Some(10), t).with_style(style(draws.clone()));
    let pb = match &mp {
        Some(m) => m.add(pb),
        None => pb,
    };
    let before = tids();
    pb.enable_steady_tick(Duration::from_millis(interval_ms));
    let mut ticker: Option<u64> = None;
    wait_until(1000, || {
        ticker = tids().difference(&before).next().copied();
        ticker.is_some()
    });
    let Some(ticker) = ticker else {
        s.fail("ticker-thread-not-started", "no new thread within 1 s of enable_steady_tick".into(), desc);
        std::mem::forget(pb);
        return;
    };
    // let it tick once and park in wait_timeout_while
    std::thread::sleep(Duration::from_millis(30));
    let weak = pb.downgrade();
    let clone = pb.clone();
    let pb2 = pb.clone();
    let t0 = Instant::now();
    let done = watchdog(move || match ev {
        Ev::Disable => pb2.disable_steady_tick(),
        Ev::Replace => pb2.enable_steady_tick(Duration::from_millis(HOUR_MS)),
        Ev::DropLast => {}
        Ev::Finish(0) => pb2.finish(),
        Ev::Finish(1) => pb2.finish_with_message("m"),
        Ev::Finish(2) => pb2.finish_and_clear(),
        Ev::Finish(3) => pb2.abandon(),
        Ev::Finish(4) => pb2.abandon_with_message("m"),
        Ev::Finish(_) => pb2.finish_using_style(),
    });
    if done.is_none() {
        s.fail("deadlock", format!("{ev:?} did not return within the watchdog time"), desc);
        std::mem::forget(pb);
        std::mem::forget(clone);
        return;
    }
    let mut call_ms = t0.elapsed().as_millis() as u64;
    let mut keep: Vec<ProgressBar> = vec![pb, clone];
    if ev == Ev::DropLast {
        // a clone is dropped first (the ticker must survive that), then the last handle
        keep.pop();
        let alive_after_clone_drop = tids().contains(&ticker);
        if !alive_after_clone_drop {
            s.fail(
                "ticker-stopped-by-clone-drop",
                "dropping a clone (not the last handle) ended the ticker thread".into(),
                desc.clone(),
            );
        }
        let last = keep.pop().unwrap();
        let t1 = Instant::now();
        if watchdog(move || drop(last)).is_none() {
            s.fail("deadlock", "drop of the last handle did not return".into(), desc);
            return;
        }
        call_ms = t1.elapsed().as_millis() as u64;
        if weak.upgrade().is_some() {
            s.fail("bar-state-leaked", "WeakProgressBar::upgrade succeeds after the last handle was dropped".into(), desc.clone());
        }
    }
    let exited = wait_until(WINDOW_MS, || !tids().contains(&ticker));
    let class = match ev {
        Ev::Finish(_) => "ticker-parked-after-finish",
        Ev::Disable => "ticker-alive-after-disable",
        Ev::Replace => "ticker-alive-after-replace",
        Ev::DropLast => "ticker-alive-after-last-drop",
    };
    if !exited {
        s.fail(
            class,
            format!("ticker thread (tid {ticker}) still alive {WINDOW_MS} ms after {ev:?} with a {interval_ms} ms interval"),
            desc.clone(),
        );
    }
    if call_ms > WINDOW_MS {
        s.fail(
            "ticker-join-not-prompt",
            format!("{ev:?} took {call_ms} ms with a {interval_ms} ms interval (join waits for the ticker)"),
            desc.clone(),
        );
    }
    s.count(&format!("life:{}", ev_coq(ev)));
    s.count(&format!("interval_ms:{interval_ms}"));
    // oracle only: the automaton's prediction for these four events does not depend on the interval
    // (`life_exits` = true), a Coq case would carry no information (audit 3, finding 28)
    s.oracle_only(desc, true);
    // clean up (joins what is left; prompt by the clauses just checked)
    let _ = watchdog(move || {
        drop(keep);
        drop(mp);
    });
}

fn spinner_index(term: &InMemoryTerm) -> Option<u64> {
    let c = term.contents();
    let w = c.split_whitespace().next()?;
    w.parse::<u64>().ok()
}

/// manual tick() with / without a ticker installed; the ticker redraws on its own
fn manual_tick(s: &mut Session, installed: bool, n: u64) {
    let desc = format!("manual_tick installed={installed} n={n}");
    let draws = std::sync::Arc::new(std::sync::atomic::AtomicU64::new(0));
    let term = InMemoryTerm::new(4, 60);
    let pb = ProgressBar::with_draw_target(Some(10), ProgressDrawTarget::term_like(Box::new(term.clone())))
        .with_style(style(draws.clone()));
    if installed {
        pb.enable_steady_tick(Duration::from_millis(HOUR_MS));
        // the ticker ticks once right away, then waits for an hour
        if !wait_until(1000, || spinner_index(&term).is_some()) {
            s.fail("ticker-does-not-redraw", "no frame within 1 s of enable_steady_tick(1 h)".into(), desc);
            std::mem::forget(pb);
            return;
        }
        std::thread::sleep(Duration::from_millis(20));
    } else {
        pb.tick();
    }
    pb.force_draw();
    let before = spinner_index(&term);
    for _ in 0..n {
        pb.tick();
    }
    pb.force_draw();
    let after = spinner_index(&term);
    let (Some(before), Some(after)) = (before, after) else {
        s.fail("no-frame", format!("no spinner on the screen: {:?}", term.contents()), desc);
        std::mem::forget(pb);
        return;
    };
    // tick strings cycle with period 60; n < 60 - before in every case generated here
    let want = if installed { before } else { before + n };
    if after != want {
        s.fail(
            if installed { "manual-tick-advances-with-ticker" } else { "manual-tick-lost" },
            format!("spinner index {before} -> {after} after {n} tick() calls, expected {want}"),
            desc.clone(),
        );
    }
    s.count(if installed { "manual_tick:installed" } else { "manual_tick:free" });
    s.case(format!("CManualTick {} {} {}%N {}%N", cbool(installed), n, before, after), desc.clone(), true);
    // the drop joins the ticker: never on the main thread without the watchdog
    if watchdog(move || drop(pb)).is_none() {
        s.fail("deadlock", "drop of the bar (join of its 1 h ticker) did not return".into(), desc);
    }
}

/// a steady ticker with a short interval redraws the bar without any manual tick
fn redraws(s: &mut Session, interval_ms: u64, multi: bool) {
    let desc = format!("redraws interval_ms={interval_ms} multi={multi}");
    let draws = std::sync::Arc::new(std::sync::atomic::AtomicU64::new(0));
    let term = InMemoryTerm::new(4, 60);
    let mp = multi.then(|| MultiProgress::with_draw_target(ProgressDrawTarget::term_like(Box::new(term.clone()))));
    let pb = match &mp {
        Some(m) => m.add(ProgressBar::with_draw_target(Some(10), ProgressDrawTarget::hidden())),
        None => ProgressBar::with_draw_target(Some(10), ProgressDrawTarget::term_like(Box::new(term.clone()))),
    }
    .with_style(style(draws.clone()));
    pb.enable_steady_tick(Duration::from_millis(interval_ms));
    let mut seen = BTreeSet::new();
    let ok = wait_until(3000, || {
        if let Some(i) = spinner_index(&term) {
            seen.insert(i);
        }
        seen.len() >= 4
    });
    if !ok {
        s.fail(
            "ticker-does-not-redraw",
            format!("only {} distinct spinner frames in 3 s with a {interval_ms} ms interval (callback draws: {})",
                    seen.len(), draws.load(std::sync::atomic::Ordering::SeqCst)),
            desc.clone(),
        );
    }
    s.count("redraws");
    s.oracle_only(desc, true);
    let _ = watchdog(move || {
        drop(pb);
        drop(mp);
    });
}

/// the three parties of D9 at full speed: update() / enable+disable / the ticker
fn d9_stress(s: &mut Session, rounds: u64, interval_ms: u64) {
    let desc = format!("d9_stress rounds={rounds} interval_ms={interval_ms}");
    let ok = watchdog(move || {
        let pb = ProgressBar::with_draw_target(Some(10), ProgressDrawTarget::hidden());
        pb.enable_steady_tick(Duration::from_millis(interval_ms));
        let a = pb.clone();
        let b = pb.clone();
        let c = pb.clone();
        let ha = std::thread::spawn(move || {
            for _ in 0..rounds * 20 {
                a.update(|st| st.set_pos(st.pos().wrapping_add(1)));
            }
        });
        let hb = std::thread::spawn(move || {
            for i in 0..rounds {
                if i % 2 == 0 {
                    b.disable_steady_tick()
                } else {
                    b.enable_steady_tick(Duration::from_millis(interval_ms))
                }
            }
        });
        let hc = std::thread::spawn(move || {
            for i in 0..rounds * 5 {
                c.inc(1);
                c.tick();
                if i % 50 == 0 {
                    c.finish();
                    c.reset();
                }
            }
        });
        ha.join().unwrap();
        hb.join().unwrap();
        hc.join().unwrap();
        drop(pb);
    });
    if ok.is_none() {
        s.fail("deadlock", "update / enable+disable / ticker stress did not finish within the watchdog time".into(), desc.clone());
    }
    s.count("d9_stress");
    s.oracle_only(desc, true);
}

// ------------------------------------------------------------------ terminals with a fault / a gate
use indicatif::TermLike;
use std::io;
use std::sync::atomic::{AtomicBool, AtomicUsize, Ordering};
use std::sync::{Arc, Condvar, Mutex};

#[derive(Clone, Copy, Debug, PartialEq)]
enum FailAt {
    /// the k-th flush (= the k-th frame) fails
    Flush(usize),
    /// the k-th terminal call of any kind fails
    Call(usize),
}

#[derive(Debug, Default)]
struct FlakyShared {
    calls: AtomicUsize,
    flushes: AtomicUsize,
    failed: AtomicBool,
    frames_after_failure: AtomicUsize,
}

/// a terminal that answers ONE call with a transient error (`WouldBlock`) and works before and after
#[derive(Debug, Clone)]
struct FlakyTerm(Arc<FlakyShared>, FailAt);

impl FlakyTerm {
    fn call(&self, is_flush: bool) -> io::Result<()> {
        let n = self.0.calls.fetch_add(1, Ordering::SeqCst) + 1;
        let f = if is_flush { self.0.flushes.fetch_add(1, Ordering::SeqCst) + 1 } else { 0 };
        let fail = match self.1 {
            FailAt::Flush(k) => is_flush && f == k,
            FailAt::Call(k) => n == k,
        };
        if fail && !self.0.failed.swap(true, Ordering::SeqCst) {
            return Err(io::Error::new(io::ErrorKind::WouldBlock, "try again"));
        }
        if is_flush && self.0.failed.load(Ordering::SeqCst) {
            self.0.frames_after_failure.fetch_add(1, Ordering::SeqCst);
        }
        Ok(())
    }
}

impl TermLike for FlakyTerm {
    fn width(&self) -> u16 {
        40
    }
    fn height(&self) -> u16 {
        10
    }
    fn move_cursor_up(&self, _n: usize) -> io::Result<()> {
        self.call(false)
    }
    fn move_cursor_down(&self, _n: usize) -> io::Result<()> {
        self.call(false)
    }
    fn move_cursor_right(&self, _n: usize) -> io::Result<()> {
        self.call(false)
    }
    fn move_cursor_left(&self, _n: usize) -> io::Result<()> {
        self.call(false)
    }
    fn write_line(&self, _s: &str) -> io::Result<()> {
        self.call(false)
    }
    fn write_str(&self, _s: &str) -> io::Result<()> {
        self.call(false)
    }
    fn clear_line(&self) -> io::Result<()> {
        self.call(false)
    }
    fn flush(&self) -> io::Result<()> {
        self.call(true)
    }
}

/// "A steady-tick thread redraws the bar ... and stops when the bar is finished, steady tick is disabled or
/// replaced, or the last handle is dropped": a transient I/O error of one frame is none of these - frames must
/// keep coming.  Only the ticker thread draws (the main thread never touches the bar).
fn flaky_story(s: &mut Session, fail: FailAt, interval_ms: u64, multi: bool) {
    let desc = format!("flaky_terminal fail={fail:?} interval_ms={interval_ms} multi={multi}");
    let shared = Arc::new(FlakyShared::default());
    let term = FlakyTerm(shared.clone(), fail);
    let mp = multi.then(|| MultiProgress::with_draw_target(ProgressDrawTarget::term_like(Box::new(term.clone()))));
    let pb = match &mp {
        Some(m) => m.add(ProgressBar::with_draw_target(None, ProgressDrawTarget::hidden())),
        None => ProgressBar::with_draw_target(None, ProgressDrawTarget::term_like(Box::new(term.clone()))),
    };
    pb.set_style(ProgressStyle::with_template("{spinner} {msg}").unwrap());
    pb.enable_steady_tick(Duration::from_millis(interval_ms));
    if !wait_until(5000, || shared.failed.load(Ordering::SeqCst)) {
        s.fail(
            "ticker-does-not-redraw",
            format!("the steady tick never reached the failing call ({} calls, {} frames in 5 s)",
                    shared.calls.load(Ordering::SeqCst), shared.flushes.load(Ordering::SeqCst)),
            desc.clone(),
        );
    } else {
        let ok = wait_until(3000, || shared.frames_after_failure.load(Ordering::SeqCst) >= 5);
        if !ok {
            s.fail(
                "ticker-stops-after-io-error",
                format!(
                    "only {} frame(s) in 3 s after ONE transient WouldBlock of the terminal; the bar is not finished, \
                     steady tick not disabled or replaced, the handle alive (manual ticks are no-ops while it is installed)",
                    shared.frames_after_failure.load(Ordering::SeqCst)
                ),
                desc.clone(),
            );
        }
    }
    s.count("story:flaky_terminal");
    s.oracle_only(desc.clone(), true);
    if watchdog(move || {
        drop(pb);
        drop(mp);
    })
    .is_none()
    {
        s.fail("deadlock", "drop of the bar after the flaky-terminal story did not return".into(), desc);
    }
}

#[derive(Debug, Default)]
struct GateShared {
    entered: AtomicBool,
    open: Mutex<bool>,
    cv: Condvar,
    calls: AtomicUsize,
}

/// a terminal whose first `write_str` parks the caller (the ticker thread) until the gate is opened
#[derive(Debug, Clone)]
struct GateTerm(Arc<GateShared>);

impl GateTerm {
    fn call(&self) -> io::Result<()> {
        self.0.calls.fetch_add(1, Ordering::SeqCst);
        Ok(())
    }
}

impl TermLike for GateTerm {
    fn width(&self) -> u16 {
        40
    }
    fn height(&self) -> u16 {
        10
    }
    fn move_cursor_up(&self, _n: usize) -> io::Result<()> {
        self.call()
    }
    fn move_cursor_down(&self, _n: usize) -> io::Result<()> {
        self.call()
    }
    fn move_cursor_right(&self, _n: usize) -> io::Result<()> {
        self.call()
    }
    fn move_cursor_left(&self, _n: usize) -> io::Result<()> {
        self.call()
    }
    fn write_line(&self, _s: &str) -> io::Result<()> {
        self.call()
    }
    fn write_str(&self, _s: &str) -> io::Result<()> {
        if !self.0.entered.swap(true, Ordering::SeqCst) {
            let mut open = self.0.open.lock().unwrap();
            while !*open {
                open = self.0.cv.wait(open).unwrap();
            }
        }
        self.call()
    }
    fn clear_line(&self) -> io::Result<()> {
        self.call()
    }
    fn flush(&self) -> io::Result<()> {
        self.call()
    }
}

/// panics of threads without a name (the ticker thread is spawned with plain `thread::spawn`; every harness
/// thread is named)
static FOREIGN_PANICS: Mutex<Vec<String>> = Mutex::new(Vec::new());

fn watch_foreign_panics() {
    static ONCE: std::sync::Once = std::sync::Once::new();
    let _ = catch(|| ()); // the library's hook first, ours wraps it
    ONCE.call_once(|| {
        let prev = std::panic::take_hook();
        std::panic::set_hook(Box::new(move |info| {
            if std::thread::current().name().is_none() {
                if let Ok(mut v) = FOREIGN_PANICS.lock() {
                    v.push(info.to_string());
                }
            }
            prev(info);
        }));
    });
}

/// The last handle is dropped while the ticker thread is in the middle of a tick (parked inside the terminal).
/// drop() must stop and JOIN the ticker: when it returns the thread has ended without a panic and nothing
/// touches the terminal any more ("ticker holds only a Weak reference", "stops ... when the last handle is dropped").
fn gate_story(s: &mut Session, interval_ms: u64, multi: bool) {
    let desc = format!("last_handle_dropped_during_a_tick interval_ms={interval_ms} multi={multi}");
    watch_foreign_panics();
    let panics_before = FOREIGN_PANICS.lock().map(|v| v.len()).unwrap_or(0);
    let shared = Arc::new(GateShared::default());
    let term = GateTerm(shared.clone());
    let mp = multi.then(|| MultiProgress::with_draw_target(ProgressDrawTarget::term_like(Box::new(term.clone()))));
    let pb = match &mp {
        Some(m) => m.add(ProgressBar::with_draw_target(None, ProgressDrawTarget::hidden())),
        None => ProgressBar::with_draw_target(None, ProgressDrawTarget::term_like(Box::new(term.clone()))),
    };
    pb.set_style(ProgressStyle::with_template("{spinner} {msg}").unwrap());
    pb.enable_steady_tick(Duration::from_millis(interval_ms));
    if !wait_until(5000, || shared.entered.load(Ordering::SeqCst)) {
        s.fail("ticker-does-not-redraw", "the steady tick thread never started to draw".into(), desc);
        *shared.open.lock().unwrap() = true;
        shared.cv.notify_all();
        std::mem::forget(pb);
        return;
    }
    let opener = {
        let shared = shared.clone();
        std::thread::Builder::new()
            .name("c08-gate".into())
            .spawn(move || {
                std::thread::sleep(Duration::from_millis(300));
                *shared.open.lock().unwrap() = true;
                shared.cv.notify_all();
            })
            .unwrap()
    };
    // drop the only handle while the tick is in flight (it legitimately waits for the tick to complete)
    let dropped = watchdog(move || drop(pb));
    let calls_when_drop_returned = shared.calls.load(Ordering::SeqCst);
    let _ = opener.join();
    if dropped.is_none() {
        s.fail("deadlock", "drop of the last handle during a tick did not return".into(), desc);
        return;
    }
    // a (wrongly) surviving ticker thread gets time to finish its tick and to tear itself down
    std::thread::sleep(Duration::from_millis(700));
    let calls_at_end = shared.calls.load(Ordering::SeqCst);
    let panics: Vec<String> =
        FOREIGN_PANICS.lock().map(|v| v[panics_before.min(v.len())..].to_vec()).unwrap_or_default();
    if !panics.is_empty() {
        s.fail(
            "ticker-thread-panicked",
            format!("the steady tick thread did not end cleanly after the last handle was dropped during a tick: {panics:?}"),
            desc.clone(),
        );
    }
    if calls_at_end != calls_when_drop_returned {
        s.fail(
            "ticker-uses-terminal-after-last-drop",
            format!(
                "{} terminal call(s) after drop() of the last handle had returned (drop did not wait for the ticker)",
                calls_at_end - calls_when_drop_returned
            ),
            desc.clone(),
        );
    }
    s.count("story:last_drop_during_tick");
    s.oracle_only(desc, true);
    drop(mp);
}

fn scenario_case(s: &mut Session, sc: &Scenario, seed: u64) {
    let desc = format!("scenario {}", sc.text());
    let out = run_scenario(sc);
    if !out.completed {
        s.fail(
            "deadlock",
            format!("not finished {} s after start: {} (threads are left blocked)", WATCHDOG.as_secs(), out.stuck),
            desc.clone(),
        );
    }
    for p in &out.panics {
        s.fail("panic", p.clone(), desc.clone());
    }
    if out.leftover_threads > 0 {
        s.fail(
            "ticker-thread-leaked",
            format!("{} thread(s) still alive 2 s after every handle was dropped", out.leftover_threads),
            desc.clone(),
        );
    }
    for t in &sc.threads {
        for o in t {
            let k = o.text();
            s.count(&format!("op:{}", k.split('(').next().unwrap()));
        }
    }
    s.count(&format!("target:{:?}", sc.target));
    s.count(&format!("threads:{}", sc.threads.len()));
    let with_ticker = sc.initial.iter().any(|i| i.is_some())
        || sc.threads.iter().flatten().any(|o| matches!(o, Op::Enable(..)));
    s.count(if with_ticker { "scenario:with_ticker" } else { "scenario:no_ticker" });
    let nontrivial = sc.threads.iter().map(|t| t.len()).sum::<usize>() >= 3;
    s.case(scenario_coq(sc, seed, out.completed), desc, nontrivial);
}

fn main() {
    let a = args();
    let header = "From IndModel Require Import Base Locks.\nFrom IndGen Require Import LockFootprints.\n\
                  From Coq Require Import String.\nOpen Scope nat_scope.\n\
                  Definition c08_chk := c08_check_p all_programs ticker_prog.\n";
    let mut s = Session::new(&a, "C08", header, "c08case", "c08_chk");
    s.rule = "real threads through the public API under a 6 s watchdog: 2-3 threads x 1-5 calls (inc, set_position, tick, update, \
              set_message, println, suspend, finish*/abandon*, reset, enable/disable_steady_tick at 1 ms..1 h, clone+drop, drop, \
              is_hidden, force_draw, set_draw_target; MultiProgress println/clear/suspend/remove/add/insert/insert_from_back/\
              insert_before/insert_after (anchor = bar 0, never detached)/remove+add/is_hidden) on 1-3 shared bars \
              (hidden / InMemoryTerm / MultiProgress members), with and without initial tickers; each scenario is also replayed on \
              the lock model built from the generated footprint table; ticker lifecycle cases (oracle only): event x interval x target; a terminal that fails once under a steady tick; the \
              last handle dropped while the ticker is parked inside a terminal call; manual tick cases; non-trivial = at least 3 calls; distinct = distinct scenario text"
        .into();
    indicatif::verif_clock::set_auto_step_ns(1_000_000);
    // ---- ticker lifecycle first (thread observation is process wide)
    let events = [
        Ev::Disable,
        Ev::Replace,
        Ev::DropLast,
        Ev::Finish(0),
        Ev::Finish(1),
        Ev::Finish(2),
        Ev::Finish(3),
        Ev::Finish(4),
        Ev::Finish(5),
    ];
    for target in [Target::Hidden, Target::Mem, Target::Multi] {
        for ev in events {
            let ivs: &[u64] = if target == Target::Hidden || a.thorough || a.extended {
                &[1, 20, 1000, HOUR_MS]
            } else {
                &[20, HOUR_MS]
            };
            for &iv in ivs {
                if expired() < MAX_EXPIRED {
                    lifecycle(&mut s, ev, iv, target);
                }
            }
        }
    }
    for installed in [true, false] {
        for n in [0u64, 1, 2, 7, 20] {
            manual_tick(&mut s, installed, n);
        }
    }
    for (iv, multi) in [(1u64, false), (5, false), (2, true), (20, true)] {
        redraws(&mut s, iv, multi);
    }
    // ---- a terminal that fails once (transient), a terminal that parks the ticker in the middle of a tick
    for (fail, iv, multi) in [
        (FailAt::Flush(3), 10u64, false),
        (FailAt::Flush(1), 5, false),
        (FailAt::Call(7), 10, false),
        (FailAt::Flush(2), 10, true),
        (FailAt::Call(11), 5, true),
    ] {
        if expired() < MAX_EXPIRED {
            flaky_story(&mut s, fail, iv, multi);
        }
    }
    for (iv, multi) in [(10u64, false), (2, true)] {
        if expired() < MAX_EXPIRED {
            gate_story(&mut s, iv, multi);
        }
    }
    // ---- the D9 parties at full speed
    let rounds = if a.thorough || a.extended { 2000 } else { 300 };
    if expired() < MAX_EXPIRED {
        d9_stress(&mut s, rounds, 1);
        d9_stress(&mut s, rounds / 4, HOUR_MS);
    }
    // ---- corpus, then random scenarios
    let corpus = vec![
        // the three-party deadlock of D9 (update / disable / ticker), as short sequences
        Scenario {
            target: Target::Hidden,
            nbars: 1,
            initial: vec![Some(1)],
            threads: vec![
                vec![Op::Update(0), Op::Update(0), Op::Update(0)],
                vec![Op::Disable(0), Op::Enable(0, 1), Op::Disable(0)],
            ],
        },
        // last handle dropped by a worker while the ticker runs; multi member
        Scenario {
            target: Target::Multi,
            nbars: 2,
            initial: vec![Some(1), Some(HOUR_MS)],
            threads: vec![
                vec![Op::Println(0), Op::MpRemove(1), Op::DropHandle(0)],
                vec![Op::MpSuspend, Op::Finish(1, 2), Op::MpAdd(1)],
                vec![Op::Enable(0, 2), Op::Suspend(1), Op::MpClear],
            ],
        },
        Scenario {
            target: Target::Mem,
            nbars: 1,
            initial: vec![None],
            threads: vec![vec![Op::Enable(0, HOUR_MS), Op::Finish(0, 0)], vec![Op::Enable(0, 1), Op::Reset(0)]],
        },
    ];
    let mut r = Rng::new(a.seed);
    for sc in &corpus {
        if expired() < MAX_EXPIRED {
            scenario_case(&mut s, sc, r.next());
        }
    }
    let n = if a.thorough { 6000 } else if a.extended { 4000 } else { 600 };
    for _ in 0..n {
        let sc = gen_scenario(&mut r);
        let seed = r.next();
        scenario_case(&mut s, &sc, seed);
        if expired() >= MAX_EXPIRED {
            break;
        }
    }
    if expired() >= MAX_EXPIRED {
        s.notes.push(format!(
            "run cut short after {} watchdog expirations (blocked threads cannot be killed and are leaked)",
            expired()
        ));
    }
    indicatif::verif_clock::set_auto_step_ns(0);
    s.finish();
}
