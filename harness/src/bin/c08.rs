// temporary probe (will be replaced by the real harness)
use indicatif::{ProgressBar, ProgressDrawTarget};
use std::time::Duration;
fn nthreads() -> usize { std::fs::read_dir("/proc/self/task").unwrap().count() }
fn main() {
    let base = nthreads();
    let pb = ProgressBar::with_draw_target(Some(10), ProgressDrawTarget::hidden());
    pb.enable_steady_tick(Duration::from_secs(3600));
    std::thread::sleep(Duration::from_millis(100));
    println!("after enable: +{}", nthreads() - base);
    pb.finish();
    std::thread::sleep(Duration::from_millis(300));
    println!("300ms after finish (1h interval): +{}", nthreads() - base);
    let t = std::time::Instant::now();
    pb.disable_steady_tick();
    println!("disable took {:?}: +{}", t.elapsed(), nthreads() - base);
    let pb = ProgressBar::with_draw_target(Some(10), ProgressDrawTarget::hidden());
    pb.enable_steady_tick(Duration::from_millis(20));
    std::thread::sleep(Duration::from_millis(50));
    pb.finish();
    std::thread::sleep(Duration::from_millis(100));
    println!("100ms after finish (20ms interval): +{}", nthreads() - base);
    pb.reset();
    pb.tick();
    let mut tk = 0; pb.update(|s| { let _ = s; }); 
    let _ = tk; tk = 1; let _ = tk;
    let pb2 = ProgressBar::with_draw_target(Some(10), ProgressDrawTarget::hidden());
    pb2.enable_steady_tick(Duration::from_secs(3600));
    let w = pb2.downgrade();
    let t = std::time::Instant::now();
    drop(pb2);
    println!("drop took {:?}: +{} upgrade none={}", t.elapsed(), nthreads() - base, w.upgrade().is_none());
}
