//! C12 – field width, alignment, truncation: correspondence with model/Padded.v + direct oracle.
//!
//! Every case is one single-line template `pre{key:<align><W>[!]}post`, `pre{key:<align><W>[!].STYLE}post`
//! (styled field, colours on or off: `console::set_colors_enabled`) or `pre{wide_msg[:align]}post`
//! rendered through the public API on a recording terminal; the observable is the bar line
//! handed to `TermLike::write_str`.
use console::measure_text_width as mtw;
use indicatif::{ProgressBar, ProgressDrawTarget, ProgressState, ProgressStyle};
use verif_harness::spy::{Spy, TOp};
use verif_harness::*;

#[derive(Clone, Copy, Debug, PartialEq)]
enum Al {
    L,
    C,
    R,
}
impl Al {
    fn coq(self) -> &'static str {
        match self {
            Al::L => "ALeft",
            Al::C => "ACenter",
            Al::R => "ARight",
        }
    }
}
#[derive(Clone, Copy, Debug, PartialEq)]
enum Key {
    Msg,
    Prefix,
    Custom,
}

/// per-character (char, columns): 0 inside ANSI escape sequences, measure_text_width of the
/// single character elsewhere.  None when the widths do not add up to the width of the whole
/// string (the model's additivity assumption does not apply to such a string).
fn char_cols(s: &str) -> Option<Vec<(char, usize)>> {
    let mut v = vec![];
    for (chunk, is_ansi) in console::AnsiCodeIterator::new(s) {
        for c in chunk.chars() {
            v.push((c, if is_ansi { 0 } else { mtw(&c.to_string()) }));
        }
    }
    if v.iter().map(|x| x.1).sum::<usize>() == mtw(s) {
        Some(v)
    } else {
        None
    }
}

fn rle3(v: &[(char, usize)]) -> String {
    let mut out: Vec<(u32, usize, u64)> = vec![];
    for &(c, w) in v {
        match out.last_mut() {
            Some(l) if l.0 == c as u32 && l.1 == w => l.2 += 1,
            _ => out.push((c as u32, w, 1)),
        }
    }
    clist(out.iter().map(|(c, w, n)| format!("({c},{w},{n})")))
}
fn rle2(s: &str) -> String {
    let mut out: Vec<(u32, u64)> = vec![];
    for c in s.chars() {
        match out.last_mut() {
            Some(l) if l.0 == c as u32 => l.1 += 1,
            _ => out.push((c as u32, 1)),
        }
    }
    clist(out.iter().map(|(c, n)| format!("({c},{n})")))
}

/// all characters are one byte and one column (outside the known-finding class)
fn all_ascii1(v: &[(char, usize)]) -> bool {
    v.iter().all(|&(c, w)| c.len_utf8() == 1 && w == 1)
}

fn short(s: &str) -> String {
    let n = s.chars().count();
    if n <= 60 {
        format!("{s:?}")
    } else {
        let head: String = s.chars().take(24).collect();
        let tail: String = s.chars().skip(n - 8).collect();
        format!("{head:?}..({n} chars, fx{:x})..{tail:?}", fxhash(s.as_bytes()))
    }
}

/// Render one single-line template; returns the bar line written to the terminal.
fn render(tpl: &str, key: Key, content: &str, tw: u16) -> Result<Option<String>, String> {
    render_with_prefix(tpl, key, content, tw, None)
}

/// as `render`, additionally setting the bar's prefix (for lines that combine a sized {prefix:W}
/// field with a wide element)
fn render_with_prefix(tpl: &str, key: Key, content: &str, tw: u16, extra_prefix: Option<&str>) -> Result<Option<String>, String> {
    let extra_prefix = extra_prefix.map(|p| p.to_string());
    let spy = Spy::new(tw, u16::MAX);
    let content = content.to_string();
    let sp = spy.clone();
    let tpl = tpl.to_string();
    catch(move || {
        // never dropped: a drop would draw once more (and, while unwinding from a panic in the
        // draw, panic again and abort the harness)
        let pb = std::mem::ManuallyDrop::new(ProgressBar::with_draw_target(None, ProgressDrawTarget::term_like(Box::new(sp.clone()))));
        let mut style = ProgressStyle::with_template(&tpl).expect("template");
        if let Some(p) = extra_prefix {
            pb.set_prefix(p);
        }
        match key {
            Key::Msg => pb.set_message(content),
            Key::Prefix => pb.set_prefix(content),
            Key::Custom => {
                style = style.with_key("ck", move |_: &ProgressState, w: &mut dyn std::fmt::Write| {
                    let _ = w.write_str(&content);
                })
            }
        }
        pb.set_style(style);
        sp.take();
        pb.tick();
        let ops = sp.take();
        // draw_to_term: [cursor/clear ops] Str(line) Str(filler) Flush   (single-line template)
        let strs: Vec<String> = ops
            .into_iter()
            .filter_map(|o| if let TOp::Str(s) = o { Some(s) } else { None })
            .collect();
        if strs.len() == 2 {
            Some(strs[0].clone())
        } else {
            None
        }
    })
}

fn spaces(n: usize) -> String {
    " ".repeat(n)
}

/// The property, evaluated on the field actually rendered.  Ok or Err((class, detail)).
/// `what` prefixes the failure class ("wide-" for the field of a wide_msg).
fn oracle_field(
    field: &str,
    content: &str,
    cc: &[(char, usize)],
    w: usize,
    al: Al,
    tr: bool,
    what: &str,
) -> Result<(), (String, String)> {
    let cols = mtw(content);
    let got_cols = mtw(field);
    if cols <= w {
        // fits: exactly W columns, padding on the side(s) chosen by the alignment
        let d = w - cols;
        let (l, r) = match al {
            Al::L => (0, d),
            Al::R => (d, 0),
            Al::C => (d / 2, d - d / 2),
        };
        if got_cols != w {
            return Err((format!("{what}fits-width"), format!("content fits ({cols} <= {w}) but the field is {got_cols} columns wide")));
        }
        if field != format!("{}{}{}", spaces(l), content, spaces(r)) {
            return Err((format!("{what}fits-padding"), format!("padding is not {l} left / {r} right around the content: {}", short(field))));
        }
        return Ok(());
    }
    if !tr {
        if field != content {
            return Err((format!("{what}no-trunc-modified"), format!("wider content without '!' was changed: {}", short(field))));
        }
        return Ok(());
    }
    // wider and truncating: exactly W columns kept from the start / middle / end
    let excess = cols - w;
    if all_ascii1(cc) {
        let chars: Vec<char> = content.chars().collect();
        let from = match al {
            Al::L => 0,
            Al::R => excess,
            Al::C => excess / 2,
        };
        let want: String = chars[from..from + w].iter().collect();
        if field != want {
            return Err((format!("{what}trunc-ascii"), format!("1-byte/1-column content: kept {} instead of columns {from}..{}", short(field), from + w)));
        }
        return Ok(());
    }
    let plain_f = console::strip_ansi_codes(field).to_string();
    let plain_c = console::strip_ansi_codes(content).to_string();
    let placed = match al {
        Al::L => plain_c.starts_with(&plain_f),
        Al::R => plain_c.ends_with(&plain_f),
        Al::C => plain_c.contains(&plain_f),
    };
    if got_cols != w || !placed {
        return Err((
            "trunc-nonascii".to_string(),
            format!(
                "content with a character that is not 1 byte/1 column, {cols} columns, truncated to {w}: kept {got_cols} columns {}",
                short(field)
            ),
        ));
    }
    Ok(())
}

struct Gen {
    r: Rng,
}

const ASCII: &str = "abcdefghijklmnopqrstuvwxyzABCDEFGHIJKLMNOPQRSTUVWXYZ0123456789 .,:;-_+*/#@!?()<>=%&$'\"~^|\\";
const L2: &str = "éñüßπжΩø";
const C0: &str = "\u{301}\u{308}";
const W3: &str = "日本語中文字한글";
const N3: &str = "€─→✓";
const Z3: &str = "\u{200b}";
const K3: &str = "\u{17d8}";
const E4: &str = "😀🎉🚀";
const M4: &str = "\u{1d400}\u{1d4b3}";
const ANSI: [&str; 5] = ["\x1b[31m", "\x1b[0m", "\x1b[1;32m", "\x1b[38;5;196m", "\x1b[4m"];

impl Gen {
    fn pick_char(&mut self, alpha: &str) -> char {
        let v: Vec<char> = alpha.chars().collect();
        v[self.r.below(v.len() as u64) as usize]
    }
    fn len(&mut self) -> usize {
        match self.r.below(20) {
            0 => 0,
            1 => 1,
            2 => 2,
            3..=14 => self.r.range(3, 30) as usize,
            15..=18 => self.r.range(31, 90) as usize,
            _ => self.r.range(91, 400) as usize,
        }
    }
    /// (string, kind label)
    fn content(&mut self) -> (String, &'static str) {
        let n = self.len();
        let mut s = String::new();
        let kind = self.r.below(10);
        let label;
        match kind {
            0..=3 => {
                label = "ascii";
                for _ in 0..n {
                    s.push(self.pick_char(ASCII));
                }
            }
            4 => {
                label = "ansi-wrapped-ascii";
                let a = *self.r.pick(&ANSI);
                s.push_str(a);
                for i in 0..n {
                    s.push(self.pick_char(ASCII));
                    if i + 1 < n && self.r.chance(1, 8) {
                        s.push_str(*self.r.pick(&ANSI));
                    }
                }
                s.push_str("\x1b[0m");
            }
            5 => {
                label = "single-alphabet";
                let alpha = *self.r.pick(&[L2, W3, N3, E4, M4, K3]);
                for _ in 0..n.min(120) {
                    s.push(self.pick_char(alpha));
                }
            }
            _ => {
                label = "mixed";
                for _ in 0..n.min(150) {
                    match self.r.below(16) {
                        0..=6 => s.push(self.pick_char(ASCII)),
                        7 => s.push(self.pick_char(L2)),
                        8 => {
                            s.push(self.pick_char("aeou"));
                            s.push(self.pick_char(C0))
                        }
                        9..=10 => s.push(self.pick_char(W3)),
                        11 => s.push(self.pick_char(N3)),
                        12 => s.push(self.pick_char(Z3)),
                        13 => s.push(self.pick_char(E4)),
                        14 => {
                            let alpha = if self.r.chance(1, 2) { M4 } else { K3 };
                            s.push(self.pick_char(alpha))
                        }
                        _ => s.push_str(*self.r.pick(&ANSI)),
                    }
                }
            }
        }
        (s, label)
    }
    fn literal(&mut self, allow_empty: bool) -> String {
        // literal template text: no braces, no NUL, no newline
        const LIT: &str = "[]|<>#: .-=ab日é→";
        let n = if allow_empty && self.r.chance(1, 3) { 0 } else { self.r.range(1, 4) };
        let mut s = String::new();
        for _ in 0..n {
            s.push(self.pick_char(LIT));
        }
        s
    }
    fn width_for(&mut self, cols: usize) -> u16 {
        let w: i64 = match self.r.below(20) {
            0 => 0,
            1 => 1,
            2..=8 => cols as i64 + self.r.range(0, 8) as i64 - 4, // around the content width
            9 => cols as i64,
            10..=12 => self.r.below(cols as u64 + 1) as i64, // truncating
            13..=15 => cols as i64 + self.r.below(40) as i64, // padding
            16 => *self.r.pick(&[255i64, 256, 257, 1023, 1024, 32767, 32768, 65534, 65535]),
            17 => self.r.below(65536) as i64,
            _ => self.r.below(64) as i64,
        };
        w.clamp(0, 65535) as u16
    }
}

fn align_spec(al: Al, implicit_left: bool) -> &'static str {
    match al {
        Al::L if implicit_left => "",
        Al::L => "<",
        Al::C => "^",
        Al::R => ">",
    }
}

/// the texts console writes before / after a value styled with the dotted style string `st`
/// (colours forced on or off): computed with the console crate, independently of indicatif
fn style_texts(st: &str, colors: bool) -> (String, String) {
    let full = console::Style::from_dotted_str(st).force_styling(colors).apply_to("\u{1}").to_string();
    let mut it = full.splitn(2, '\u{1}');
    (it.next().unwrap().to_string(), it.next().unwrap_or("").to_string())
}

#[allow(clippy::too_many_arguments)]
fn run_field(s: &mut Session, pre: &str, post: &str, key: Key, content: &str, w: Option<u16>, al: Al, tr: bool, implicit_left: bool, label: &str) {
    run_field_styled(s, pre, post, key, content, w, al, tr, implicit_left, label, None)
}

/// `sty`: Some((dotted style string, colours enabled)) gives the placeholder a `.STYLE` part:
/// `pre{key:<align>W[!].STYLE}post`.  The field must be the style's texts (console crate) around a
/// field that meets the same clauses as an unstyled one - in particular an EMPTY content is
/// padded to W columns (seeded defect C12-6 dropped such a field altogether).
#[allow(clippy::too_many_arguments)]
fn run_field_styled(
    s: &mut Session,
    pre: &str,
    post: &str,
    key: Key,
    content: &str,
    w: Option<u16>,
    al: Al,
    tr: bool,
    implicit_left: bool,
    label: &str,
    sty: Option<(&str, bool)>,
) {
    let keyname = match key {
        Key::Msg => "msg",
        Key::Prefix => "prefix",
        Key::Custom => "ck",
    };
    let dot = sty.map_or(String::new(), |(st, _)| format!(".{st}"));
    let tpl = match w {
        Some(w) => format!("{pre}{{{keyname}:{}{w}{}{dot}}}{post}", align_spec(al, implicit_left), if tr { "!" } else { "" }),
        None if sty.is_some() => format!("{pre}{{{keyname}:{dot}}}{post}"),
        None => format!("{pre}{{{keyname}}}{post}"),
    };
    let (spre, spost) = sty.map_or((String::new(), String::new()), |(st, colors)| style_texts(st, colors));
    let desc = match sty {
        Some((_, colors)) => format!("field tpl={tpl:?} colors={colors} content={}", short(content)),
        None => format!("field tpl={tpl:?} content={}", short(content)),
    };
    let (cc, cpre, cpost) = match (char_cols(content), char_cols(pre), char_cols(post)) {
        (Some(a), Some(b), Some(c)) if mtw(&format!("{pre}{content}{post}")) == mtw(pre) + mtw(content) + mtw(post) => (a, b, c),
        _ => {
            s.count("skipped:nonadditive-width");
            s.oracle_only(desc, false);
            return;
        }
    };
    let cols = mtw(content);
    // the global colour switch of the console crate decides whether a `.STYLE` part writes escape
    // sequences (indicatif's styles are not forced); the harness is single threaded
    console::set_colors_enabled(sty.map_or(false, |x| x.1));
    let got = render(&tpl, key, content, u16::MAX);
    console::set_colors_enabled(false);
    if let Some((st, colors)) = sty {
        s.count(if colors { "styled:colors-on" } else { "styled:colors-off" });
        s.count(&format!("styled:style:{st}"));
        s.count(if spre.is_empty() { "styled:no-escape-text" } else { "styled:escape-text" });
        if content.is_empty() {
            s.count(if w.is_some() { "styled:EMPTY-content-with-width" } else { "styled:empty-content-no-width" });
            s.count(&format!("styled:empty:key:{keyname}"));
        }
    }
    // distribution
    s.count(&format!("field:align:{al:?}"));
    s.count(&format!("field:key:{keyname}"));
    s.count(&format!("field:content:{label}"));
    s.count(if all_ascii1(&cc) { "field:class:all-1byte-1col" } else { "field:class:has-non-1/1-char" });
    match w {
        None => s.count("field:no-width"),
        Some(w) => {
            let w = w as usize;
            s.count(if cols < w {
                "field:rel:fits-with-padding"
            } else if cols == w {
                "field:rel:exact"
            } else if tr {
                "field:rel:wider-truncate"
            } else {
                "field:rel:wider-keep"
            });
            s.count(match w {
                0 => "field:W:0",
                1..=63 => "field:W:1-63",
                64..=1023 => "field:W:64-1023",
                1024..=65533 => "field:W:1024-65533",
                _ => "field:W:65534-65535",
            });
            if cols > w && tr && al == Al::C {
                s.count(if (cols - w) % 2 == 1 { "field:center-trunc:odd-excess" } else { "field:center-trunc:even-excess" });
            }
            if cols < w && al == Al::C {
                s.count(if (w - cols) % 2 == 1 { "field:center-pad:odd-diff" } else { "field:center-pad:even-diff" });
            }
        }
    }
    let observed = match &got {
        Err(e) => {
            s.fail("panic", format!("drawing panicked: {e}"), desc.clone());
            None
        }
        Ok(None) => {
            s.count("skipped:line-not-observed");
            s.fail("no-line", "no bar line reached the terminal".into(), desc.clone());
            return;
        }
        Ok(Some(line)) => {
            // oracle on the implementation's output
            if !(line.len() >= pre.len() + post.len() && line.starts_with(pre) && line.ends_with(post)) {
                s.fail("literal-lost", format!("line {} does not start/end with the literals", short(line)), desc.clone());
            } else {
                let whole = &line[pre.len()..line.len() - post.len()];
                // a styled field: W columns when the content fits (escape sequences have no width),
                // and the style's texts around a field that is judged like an unstyled one
                let fits_bad = match w {
                    Some(w) if sty.is_some() && cols <= w as usize && mtw(whole) != w as usize => {
                        s.fail(
                            "fits-width",
                            format!("styled field, content fits ({cols} <= {w}) but the field is {} columns wide: {}", mtw(whole), short(whole)),
                            desc.clone(),
                        );
                        true
                    }
                    _ => false,
                };
                let field = if whole.len() >= spre.len() + spost.len() && whole.starts_with(&spre) && whole.ends_with(&spost) {
                    Some(&whole[spre.len()..whole.len() - spost.len()])
                } else {
                    if !fits_bad {
                        s.fail("styled-wrapper", format!("styled field {} is not {:?} + field + {:?}", short(whole), spre, spost), desc.clone());
                    }
                    None
                };
                match (field, w) {
                    (None, _) => {}
                    (Some(_), _) if fits_bad => {}
                    (Some(field), None) => {
                        if field != content {
                            s.fail("no-width-modified", format!("placeholder without width changed its content: {}", short(field)), desc.clone());
                        }
                    }
                    (Some(field), Some(w)) => {
                        if let Err((class, detail)) = oracle_field(field, content, &cc, w as usize, al, tr, "") {
                            s.fail(&class, detail, desc.clone());
                        }
                    }
                }
            }
            Some(line.clone())
        }
    };
    let coq = match sty {
        None => format!(
            "CField {} {} {} {} {} {} {}",
            rle3(&cpre),
            rle3(&cpost),
            rle3(&cc),
            copt(w.map(|x| x.to_string())),
            al.coq(),
            cbool(tr),
            copt(observed.map(|l| rle2(&l)))
        ),
        Some(_) => {
            // the style's texts with their per-character column widths as console measures them
            // (char_cols: 0 inside an ANSI sequence, measure_text_width of the character elsewhere -
            // nothing is forced to 0): `c12_check` evaluates the hypothesis of C12_styled_fits,
            // cols spre = cols spost = 0, on them, so a style text with columns is a Coq mismatch too
            let (zpre, zpost) = match (char_cols(&spre), char_cols(&spost)) {
                (Some(a), Some(b)) => (a, b),
                _ => {
                    s.count("skipped:nonadditive-width");
                    s.oracle_only(desc, false);
                    return;
                }
            };
            if mtw(&spre) + mtw(&spost) != 0 {
                s.fail("styled-wrapper", format!("the style's texts {spre:?} / {spost:?} are not zero columns wide"), desc.clone());
            }
            format!(
                "CStyled {} {} {} {} {} {} {} {} {}",
                rle3(&cpre),
                rle3(&cpost),
                rle3(&cc),
                copt(w.map(|x| x.to_string())),
                al.coq(),
                cbool(tr),
                rle3(&zpre),
                rle3(&zpost),
                copt(observed.map(|l| rle2(&l)))
            )
        }
    };
    s.case(coq, desc, w.is_some());
}

fn run_wide(s: &mut Session, pre: &str, post: &str, msg: &str, al: Al, implicit_left: bool, tw: u16, label: &str) {
    run_wide_sized(s, None, pre, post, msg, al, implicit_left, tw, label)
}

/// `sized`: Some((prefix text, W)) puts a sized, NON-truncating, left-aligned `{prefix:W}` field in
/// front of the line.  By C12_fits / C12_no_trunc that field renders as the prefix padded to W
/// columns, or as the whole prefix when it is wider than W - either way it is ordinary text of
/// the line as far as the wide element is concerned (the model gets it as part of `pre`).
fn run_wide_sized(s: &mut Session, sized: Option<(&str, usize)>, pre: &str, post: &str, msg: &str, al: Al, implicit_left: bool, tw: u16, label: &str) {
    let tpl_pre = match sized {
        Some((_, w)) => format!("{{prefix:{w}}}{pre}"),
        None => pre.to_string(),
    };
    let field_text = match sized {
        Some((p, w)) => format!("{p}{}", " ".repeat(w.saturating_sub(mtw(p)))),
        None => String::new(),
    };
    let pre_owned = format!("{field_text}{pre}");
    let pre: &str = &pre_owned;
    if let Some((p, w)) = sized {
        s.count(if mtw(p) > w { "wide:sized-field:overflows" } else { "wide:sized-field:fits" });
    }
    let tpl = if al == Al::L && implicit_left {
        format!("{tpl_pre}{{wide_msg}}{post}")
    } else {
        format!("{tpl_pre}{{wide_msg:{}}}{post}", align_spec(al, false))
    };
    let desc = format!("wide tpl={tpl:?} term_width={tw} msg={}", short(msg));
    let (cm, cpre, cpost) = match (char_cols(msg), char_cols(pre), char_cols(post)) {
        (Some(a), Some(b), Some(c))
            if mtw(&format!("{pre}{post}")) == mtw(pre) + mtw(post) && mtw(&format!("{pre}{msg}{post}")) == mtw(pre) + mtw(msg) + mtw(post) =>
        {
            (a, b, c)
        }
        _ => {
            s.count("skipped:nonadditive-width");
            s.oracle_only(desc, false);
            return;
        }
    };
    let rest = mtw(pre) + mtw(post);
    let left = (tw as usize).saturating_sub(rest);
    let cols = mtw(msg);
    let got = render_with_prefix(&tpl, Key::Msg, msg, tw, sized.map(|x| x.0));
    s.count(&format!("wide:align:{al:?}"));
    s.count(&format!("wide:content:{label}"));
    s.count(if post.is_empty() { "wide:position:last-in-line(trimmed)" } else { "wide:position:followed-by-literal" });
    s.count(if rest > tw as usize {
        "wide:rest-wider-than-terminal"
    } else if cols < left {
        "wide:rel:fits-with-padding"
    } else if cols == left {
        "wide:rel:exact"
    } else {
        "wide:rel:wider-truncate"
    });
    s.count(if all_ascii1(&cm) { "wide:class:all-1byte-1col" } else { "wide:class:has-non-1/1-char" });
    let observed = match &got {
        Err(e) => {
            s.fail("panic", format!("drawing panicked: {e}"), desc.clone());
            None
        }
        Ok(None) => {
            // the line is taller than the terminal (height 65535) or the terminal is 0 wide: not drawn
            s.count("skipped:line-not-observed");
            s.oracle_only(desc, false);
            return;
        }
        Ok(Some(line)) => {
            if !(line.len() >= pre.len() + post.len() && line.starts_with(pre) && line.ends_with(post)) {
                s.fail("literal-lost", format!("line {} does not start/end with the literals", short(line)), desc.clone());
            } else {
                let field = &line[pre.len()..line.len() - post.len()];
                // "a truncating field as wide as the rest of the line"; when nothing follows it in the
                // line its trailing white space is trimmed (style.rs:476-479)
                let res = if post.is_empty() {
                    match expected_exact(msg, &cm, left, al) {
                        // fits, or 1-byte/1-column content: the field is the expected one minus trailing white space
                        Some(e) => {
                            if field == e.trim_end() {
                                Ok(())
                            } else {
                                Err(("wide-last".to_string(), format!("last-in-line wide_msg: got {} want {}", short(field), short(e.trim_end()))))
                            }
                        }
                        // wider content with a non-1/1 character: at most `left` columns, from the right place, trimmed
                        None => {
                            let plain_f = console::strip_ansi_codes(field).to_string();
                            let plain_c = console::strip_ansi_codes(msg).to_string();
                            let placed = match al {
                                Al::L => plain_c.starts_with(&plain_f),
                                Al::R => plain_c.trim_end().ends_with(&plain_f),
                                Al::C => plain_c.contains(&plain_f),
                            };
                            if mtw(field) > left || !placed || field.trim_end() != field {
                                Err(("trunc-nonascii".to_string(), format!("last-in-line wide_msg, content with a character that is not 1 byte/1 column, {cols} columns, room {left}: kept {} columns {}", mtw(field), short(field))))
                            } else {
                                Ok(())
                            }
                        }
                    }
                } else {
                    oracle_field(field, msg, &cm, left, al, true, "wide-")
                };
                if let Err((class, detail)) = res {
                    s.fail(&class, detail, desc.clone());
                }
            }
            Some(line.clone())
        }
    };
    let coq = format!(
        "CWide {} {} {} {} {} {}",
        rle3(&cpre),
        rle3(&cpost),
        rle3(&cm),
        al.coq(),
        tw,
        copt(observed.map(|l| rle2(&l)))
    );
    s.case(coq, desc, true);
}

/// exact expected field for content that fits or is all 1-byte/1-column (truncating field)
fn expected_exact(content: &str, cc: &[(char, usize)], w: usize, al: Al) -> Option<String> {
    let cols = mtw(content);
    if cols <= w {
        let d = w - cols;
        let (l, r) = match al {
            Al::L => (0, d),
            Al::R => (d, 0),
            Al::C => (d / 2, d - d / 2),
        };
        Some(format!("{}{}{}", spaces(l), content, spaces(r)))
    } else if all_ascii1(cc) {
        let excess = cols - w;
        let from = match al {
            Al::L => 0,
            Al::R => excess,
            Al::C => excess / 2,
        };
        Some(content.chars().skip(from).take(w).collect())
    } else {
        None
    }
}

/// facts about the width tables the theorems take as hypotheses (`ch_ok`), all 0x110000 scalars
fn table_facts(s: &mut Session) {
    let mut wider_than_bytes = vec![];
    let mut equal_multibyte = vec![];
    let mut one_byte_not_one_col = vec![];
    for u in 0..0x110000u32 {
        if let Some(c) = char::from_u32(u) {
            let st = c.to_string();
            let (w, b) = (mtw(&st), st.len());
            if w > b {
                wider_than_bytes.push(u);
            }
            if w == b && b > 1 {
                equal_multibyte.push(u);
            }
            if b == 1 && w != 1 {
                one_byte_not_one_col.push(u);
            }
        }
    }
    s.count_n("table:scalars-checked", 0x110000 - 0x800);
    if !wider_than_bytes.is_empty() {
        s.fail(
            "width-table",
            format!("characters wider (columns) than long (bytes), hypothesis ch_ok of C12_no_panic is false for them: {:x?}", &wider_than_bytes[..wider_than_bytes.len().min(8)]),
            "table_facts".into(),
        );
    }
    s.notes.push(format!(
        "width table (console::measure_text_width of every scalar value): none wider than its UTF-8 length; multi-byte characters with columns == bytes: {:x?}; 1-byte characters not 1 column wide: {:x?}",
        equal_multibyte, one_byte_not_one_col
    ));
    s.oracle_only("table_facts: columns <= UTF-8 bytes for every Unicode scalar value".into(), true);
}

fn main() {
    let a = args();
    let header = "From IndModel Require Import Base Padded.\nOpen Scope N_scope.\n";
    let mut s = Session::new(&a, "C12", header, "c12case", "c12_check");
    s.shard_size = 200;
    s.rule = "single-line templates pre{key:[<^>]W[!]}post (key = msg | prefix | custom key), the same with a `.STYLE` part pre{key:[<^>]W[!].STYLE}post (1 random field in 6 and a systematic family: every alignment x with/without ! x colours on/off x msg/prefix/custom key x 6 style/width pairs with EMPTY content; the style's escape texts are computed with the console crate and handed to the model as data) and pre{wide_msg[:<^>]}post rendered through ProgressBar/ProgressStyle on a recording TermLike; W in 0..=65535 biased to the content's column width +-4, 0, 1 and the u16 boundaries; contents from ASCII, 2-byte, combining, CJK, 3-byte narrow, zero-width, U+17D8, emoji, 4-byte narrow and ANSI SGR alphabets, length 0..400 (corpus: 70000); non-trivial = a width (or wide_msg) is present; distinct = distinct (template, content, terminal width) text".into();
    let mut g = Gen { r: Rng::new(a.seed) };

    table_facts(&mut s);

    // ---------------------------------------------------------------- corpus
    let abc = "abcdefghijklmnopqrst";
    for al in [Al::L, Al::C, Al::R] {
        for tr in [false, true] {
            // the crate's own align_truncation test, and its neighbours
            for w in [0u16, 1, 9, 10, 19, 20, 21, 22, 25] {
                run_field(&mut s, "[", "]", Key::Msg, abc, Some(w), al, tr, false, "ascii");
            }
            // D4 witnesses (open finding, class trunc-nonascii when truncating)
            run_field(&mut s, "[", "]", Key::Msg, "ééééééééé", Some(5), al, tr, false, "single-alphabet");
            run_field(&mut s, "[", "]", Key::Msg, "日本語", Some(4), al, tr, false, "single-alphabet");
            run_field(&mut s, "[", "]", Key::Prefix, "日本語", Some(3), al, tr, false, "single-alphabet");
            run_field(&mut s, "[", "]", Key::Msg, "\x1b[31mabcdefgh\x1b[0m", Some(4), al, tr, false, "ansi-wrapped-ascii");
            run_field(&mut s, "[", "]", Key::Custom, "\u{17d8}\u{17d8}", Some(4), al, tr, false, "single-alphabet");
            run_field(&mut s, "[", "]", Key::Custom, "\u{17d8}\u{17d8}", Some(3), al, tr, false, "single-alphabet");
            // extremes of the width domain
            run_field(&mut s, "", "|", Key::Msg, "", Some(0), al, tr, false, "ascii");
            run_field(&mut s, "|", "", Key::Msg, "x", Some(0), al, tr, false, "ascii");
            run_field(&mut s, "[", "]", Key::Msg, "ab", Some(65535), al, tr, false, "ascii");
            run_field(&mut s, "[", "]", Key::Msg, "日本", Some(65534), al, tr, false, "single-alphabet");
        }
        let long: String = "abcdefg".chars().map(|c| c.to_string().repeat(10_000)).collect(); // 70000 columns, run-length friendly
        run_field(&mut s, "[", "]", Key::Msg, &long, Some(65535), al, true, false, "ascii");
        run_field(&mut s, "[", "]", Key::Msg, &long, Some(65534), al, true, false, "ascii");
        run_field(&mut s, "[", "]", Key::Msg, &long, Some(65535), al, false, false, "ascii");
        // wide_msg
        for tw in [1u16, 2, 7, 8, 9, 14, 15, 40] {
            run_wide(&mut s, "[", "]", "abcdefghijkl", al, true, tw, "ascii");
            run_wide(&mut s, "[", "", "abcdefghijkl", al, true, tw, "ascii");
            // a sized non-truncating field on the same line, fitting and overflowing its width
            run_wide_sized(&mut s, Some(("Downloading", 4)), " |", "|", "abcdefghijkl", al, true, tw, "ascii");
            run_wide_sized(&mut s, Some(("dl", 4)), " |", "|", "abcdefghijkl", al, true, tw, "ascii");
            run_wide_sized(&mut s, Some(("1000", 3)), "/", "", "ab", al, false, tw, "ascii");
            run_wide(&mut s, "", "", "ab  ", al, false, tw, "ascii");
            run_wide(&mut s, "日[", "]é", "ab", al, false, tw, "ascii");
            run_wide(&mut s, "[", "]", "日本語日本語", al, false, tw, "single-alphabet");
        }
        run_wide(&mut s, "[", "]", "ab", al, false, 65535, "ascii");
        run_wide(&mut s, "[", "", "ab", al, false, 65535, "ascii");
    }
    run_field(&mut s, "[", "]", Key::Msg, abc, None, Al::L, false, true, "ascii");

    // ---------------------------------------------------------------- styled fields
    // {sized field} x {`.STYLE` part} x {EMPTY content}: the witness of seeded defect C12-6 first (the
    // cargo-like "{prefix:>12.cyan.bold} serde" with the prefix cleared: the text after the field must
    // stay in column 13), then all alignments x with/without `!` x colours on/off x msg / prefix /
    // custom key x styles (with attributes, without any = unknown word, 256-colour) x widths; then the
    // same fields with non-empty content (fits, exact, wider) and styled fields without a width.
    run_field_styled(&mut s, "", " serde v1.0", Key::Prefix, "", Some(12), Al::R, false, false, "empty", Some(("cyan.bold", false)));
    run_field_styled(&mut s, "", " serde v1.0", Key::Prefix, "", Some(12), Al::R, false, false, "empty", Some(("cyan.bold", true)));
    run_field_styled(&mut s, "|", "|0", Key::Msg, "", Some(1), Al::L, false, true, "empty", Some(("green", false)));
    for al in [Al::L, Al::C, Al::R] {
        for tr in [false, true] {
            for colors in [false, true] {
                for key in [Key::Msg, Key::Prefix, Key::Custom] {
                    for (st, w) in [("red", 5u16), ("bold.dim", 1), ("on_blue.underlined", 12), ("nosuchstyle", 4), ("238", 7), ("red", 0)] {
                        run_field_styled(&mut s, "[", "]", key, "", Some(w), al, tr, false, "empty", Some((st, colors)));
                    }
                }
                for (content, w) in [("ab", 7u16), ("abcde", 5), ("abcdefgh", 5), ("日本", 7), ("é", 1)] {
                    run_field_styled(&mut s, "[", "]", Key::Msg, content, Some(w), al, tr, false, "styled-nonempty", Some(("red.bold", colors)));
                }
            }
        }
    }
    for colors in [false, true] {
        for key in [Key::Msg, Key::Prefix, Key::Custom] {
            // no width: the style wraps the bare content, an empty one included
            run_field_styled(&mut s, "[", "]", key, "", None, Al::L, false, true, "empty", Some(("red", colors)));
            run_field_styled(&mut s, "[", "]", key, "xy", None, Al::L, false, true, "styled-nonempty", Some(("bold", colors)));
        }
    }

    // ---------------------------------------------------------------- random
    let n = if a.thorough { 30_000 } else if a.extended { 25_000 } else { 2_600 };
    for _ in 0..n {
        let al = *g.r.pick(&[Al::L, Al::C, Al::R]);
        let implicit = g.r.chance(1, 2);
        if g.r.chance(1, 4) {
            let (msg, label) = g.content();
            let pre = g.literal(true);
            let post = g.literal(true);
            let rest = mtw(&pre) + mtw(&post);
            let cols = mtw(&msg);
            let tw: i64 = match g.r.below(12) {
                0 => 1,
                1..=5 => (rest + cols) as i64 + g.r.range(0, 8) as i64 - 4,
                6 => rest as i64 + g.r.range(0, 2) as i64 - 1,
                7..=8 => (rest + cols) as i64 + g.r.below(30) as i64,
                9 => *g.r.pick(&[255i64, 256, 65534, 65535]),
                _ => g.r.range(1, 120) as i64,
            };
            // one random wide case in five carries a sized non-truncating {prefix:W} field (ASCII
            // prefix of 1..12 columns, W in 0..8) in front of the line
            if g.r.chance(1, 5) {
                let n = g.r.range(1, 12) as usize;
                let p: String = (0..n).map(|i| char::from(b'a' + ((i * 7 + n) % 26) as u8)).collect();
                let w = g.r.below(9) as usize;
                let field = mtw(&p).max(w);
                run_wide_sized(&mut s, Some((&p, w)), &pre, &post, &msg, al, implicit, (tw + field as i64).clamp(1, 65535) as u16, label);
            } else {
                run_wide(&mut s, &pre, &post, &msg, al, implicit, tw.clamp(1, 65535) as u16, label);
            }
        } else {
            let (content, label) = g.content();
            let key = *g.r.pick(&[Key::Msg, Key::Msg, Key::Prefix, Key::Custom]);
            let w = if g.r.chance(1, 40) { None } else { Some(g.width_for(mtw(&content))) };
            let tr = g.r.chance(1, 2);
            let post = g.literal(true);
            // an entirely empty line is not drawn at all (style.rs:397): keep one literal
            let pre = g.literal(!post.is_empty());
            if g.r.chance(1, 6) {
                // a `.STYLE` part; half of the styled fields have EMPTY content
                let st = *g.r.pick(&["red", "bold", "cyan.bold", "on_black.green.dim", "blink", "nosuchstyle", "13", "bright.yellow"]);
                let colors = g.r.chance(1, 2);
                if g.r.chance(1, 2) {
                    let w = if g.r.chance(1, 12) { None } else { Some(*g.r.pick(&[0u16, 1, 2, 3, 5, 8, 12, 20, 80, 255, 256, 1000])) };
                    run_field_styled(&mut s, &pre, &post, key, "", w, al, tr, implicit, "empty", Some((st, colors)));
                } else {
                    run_field_styled(&mut s, &pre, &post, key, &content, w, al, tr, implicit, label, Some((st, colors)));
                }
            } else {
                run_field(&mut s, &pre, &post, key, &content, w, al, tr, implicit, label);
            }
        }
    }
    s.finish();
}
