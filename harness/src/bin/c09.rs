//! C09 – rate and ETA estimator laws: correspondence with model/Estimator.v + EstimatorFloat.v (binary64 instances,
//! powf supplied as data) + direct oracle on the implementation's outputs (classes, interpretations and
//! findings: docs/C09.md).
//!
//! Everything goes through the PUBLIC API under the mock clock: the bar is created after
//! `set_clock_ns`, driven by set_position/inc/dec/update/tick/set_length/reset*/finish and
//! `advance_clock_ns`, observed by per_sec()/eta()/duration()/elapsed().
use indicatif::verif_clock::{advance_clock_ns, clock_ns, set_auto_step_ns, set_clock_ns};
use indicatif::{ProgressBar, ProgressDrawTarget};
use std::collections::HashMap;
use std::time::Duration;
use verif_harness::*;

const S: u64 = 1_000_000_000;
const MS: u64 = 1_000_000;
const NAN_BITS: u64 = 0x7FF8_0000_0000_0000;

/// Stall lengths (ns) at which the weight 0.1^(x/15) leaves the normal range of binary64
/// (< 2^-1022: gradual underflow, products with it may be flushed to 0) and at which it is below
/// half the smallest subnormal (< 2^-1075: every round-to-nearest powf returns 0).  Both are
/// THEOREMS about the exact real function (props/C09.v, C09_weight_underflow_thresholds;
/// model/Estimator.v STALL_SUBNORMAL_NS / STALL_ZERO_NS), not measurements.
const STALL_SUBNORMAL_NS: u64 = 4615 * S;
const STALL_ZERO_NS: u64 = 4855 * S;

/// Known-finding classes (open entries of known_findings.json: D11 `stall-rise-after-acceleration`,
/// D32 `rate-underflow-after-long-stall`) are reported at most this many times per run and only
/// counted afterwards (`oracle_failure:<class>` in the evidence keeps the total): `Session::fail`
/// keeps the first 200 failures of a run, and ~1 600 readings of these two classes would crowd
/// out a new violation found later in the run.
const KNOWN_CLASS_REPORT_CAP: u64 = 40;

#[derive(Clone, Debug, PartialEq)]
enum Op {
    Adv(u64),
    SetPos(u64),
    Inc(u64),
    Dec(u64),
    UpdPos(u64),
    Tick,
    /// pb.set_message("m"): like tick() it reaches the estimator with an unchanged position
    /// (BarState::set_message -> update_estimate_and_draw, src/state.rs); the model has no message,
    /// the Coq term of this call is `Tick`
    SetMsg,
    SetLen(u64),
    UnsetLen,
    ResetEta,
    ResetElapsed,
    ResetAll,
    Finish,
    Abandon,
    Query,
}

impl Op {
    fn coq(&self) -> String {
        match self {
            Op::Adv(d) => format!("Adv {d}"),
            Op::SetPos(d) => format!("SetPos {d}"),
            Op::Inc(d) => format!("Inc {d}"),
            Op::Dec(d) => format!("Dec {d}"),
            Op::UpdPos(d) => format!("UpdPos {d}"),
            Op::Tick => "Tick".into(),
            Op::SetMsg => "SetMsg".into(),
            Op::SetLen(d) => format!("SetLen {d}"),
            Op::UnsetLen => "UnsetLen".into(),
            Op::ResetEta => "ResetEta".into(),
            Op::ResetElapsed => "ResetElapsed".into(),
            Op::ResetAll => "ResetAll".into(),
            Op::Finish => "Finish".into(),
            Op::Abandon => "Abandon".into(),
            Op::Query => "Query".into(),
        }
    }
    fn coq_term(&self) -> String {
        match self {
            Op::Adv(d) => format!("Adv {}", num(*d as u128)),
            Op::SetPos(d) => format!("SetPos {}", num(*d as u128)),
            Op::Inc(d) => format!("Inc {}", num(*d as u128)),
            Op::Dec(d) => format!("Dec {}", num(*d as u128)),
            Op::UpdPos(d) => format!("UpdPos {}", num(*d as u128)),
            Op::SetLen(d) => format!("SetLen {}", num(*d as u128)),
            Op::SetMsg => "Tick".into(),
            o => o.coq(),
        }
    }
    fn apply(&self, pb: &ProgressBar) {
        match self {
            Op::Adv(d) => advance_clock_ns(*d),
            Op::SetPos(p) => pb.set_position(*p),
            Op::Inc(d) => pb.inc(*d),
            Op::Dec(d) => pb.dec(*d),
            Op::UpdPos(p) => {
                let p = *p;
                pb.update(move |st| st.set_pos(p))
            }
            Op::Tick => pb.tick(),
            Op::SetMsg => pb.set_message("m"),
            Op::SetLen(l) => pb.set_length(*l),
            Op::UnsetLen => pb.unset_length(),
            Op::ResetEta => pb.reset_eta(),
            Op::ResetElapsed => pb.reset_elapsed(),
            Op::ResetAll => pb.reset(),
            Op::Finish => pb.finish(),
            Op::Abandon => pb.abandon(),
            Op::Query => {}
        }
    }
    fn is_reset(&self) -> bool {
        matches!(self, Op::ResetEta | Op::ResetElapsed | Op::ResetAll)
    }
}

#[derive(Clone, Debug)]
struct Obs {
    per_sec: f64,
    eta: Option<Duration>,
    dur: Option<Duration>,
    el: Duration,
}

/// What the harness must know to SUPPLY the powf data the model will ask for: which updates
/// reached the estimator (position limiter + the "no advance" guard) and hence the two ages
/// (now - prev_time, now - start_time) of every record / query.  A wrong shadow cannot hide a
/// defect: a missing table entry makes the model produce -1.0 and the comparison fail.  The
/// oracle uses it for scope decisions only (documented at the use sites: instant of the last
/// restart / reset, progress seen and since when, stale baseline, start of a stall window, and
/// the cause `smoothed > double_smoothed` of a stall rise).
#[derive(Clone, Debug)]
struct Shadow {
    pos: u64,
    prev_steps: u64,
    prev_time: u64,
    start_time: u64,
    /// instant of creation / the last reset_eta, reset_elapsed, reset call (NOT moved by a
    /// backwards seek): the property's "strictly after the bar's creation or last reset"
    reset_time: u64,
    cap: u8,
    lprev: u64,
    lstart: u64,
    done: bool,
    /// the harness's own f64 transcription of the two averages (Estimator::record,
    /// src/state.rs:448-487).  Used ONLY to decide the cause-based class of a stall rise
    /// (smoothed > double_smoothed at the last sample) and, there, only when `rate()` below
    /// reproduces every reading of the stall window bit for bit.
    sm: f64,
    dsm: f64,
    /// recorded backwards seeks, and those among them recorded at `now <= prev_time` (no time has
    /// passed since the last sample: the branch order of Estimator::record matters there)
    rewinds: u64,
    rewinds_same_instant: u64,
}

fn weight_of(secs: f64) -> f64 {
    0.1_f64.powf(secs / 15.0)
}

fn secs_of(ns: u64) -> f64 {
    (ns / S) as f64 + f64::from((ns % S) as u32) / 1_000_000_000f64
}

struct Table {
    seen: HashMap<u64, u64>,
    order: Vec<(u64, u64)>,
}
impl Table {
    fn new() -> Self {
        Table { seen: HashMap::new(), order: vec![] }
    }
    fn age(&mut self, ns: u64) {
        let x = secs_of(ns) / 15.0;
        let w = 0.1_f64.powf(x);
        if self.seen.insert(x.to_bits(), w.to_bits()).is_none() {
            self.order.push((x.to_bits(), w.to_bits()));
        }
    }
}

impl Shadow {
    fn new(now: u64) -> Self {
        Shadow { pos: 0, prev_steps: 0, prev_time: now, start_time: now, reset_time: now, cap: 10, lprev: 0, lstart: now, done: false, sm: 0.0, dsm: 0.0, rewinds: 0, rewinds_same_instant: 0 }
    }
    fn allow(&mut self, now: u64) -> bool {
        if now < self.lstart {
            return false;
        }
        let elapsed = now - self.lstart;
        let diff = elapsed.saturating_sub(self.lprev);
        if self.cap == 0 && diff < MS {
            return false;
        }
        let (new, rem) = (diff / MS, diff % MS);
        self.cap = (std::cmp::min(10u128, self.cap as u128 + new as u128) - 1) as u8;
        self.lprev = elapsed - rem;
        true
    }
    /// returns true when a genuine sample was recorded
    fn record(&mut self, now: u64, t: &mut Table) -> bool {
        let new = self.pos;
        if new <= self.prev_steps || now <= self.prev_time {
            if new < self.prev_steps {
                self.rewinds += 1;
                if now <= self.prev_time {
                    self.rewinds_same_instant += 1;
                }
                self.prev_steps = new;
                self.prev_time = now;
                self.start_time = now;
                self.sm = 0.0;
                self.dsm = 0.0;
            }
            return false;
        }
        t.age(now - self.prev_time);
        t.age(now - self.start_time);
        // transcription of the two weighted averages (classification of stall rises only)
        let delta_t = secs_of(now - self.prev_time);
        let new_sps = (new - self.prev_steps) as f64 / delta_t;
        let weight = weight_of(delta_t);
        self.sm = self.sm * weight + new_sps * (1.0 - weight);
        let total_weight = 1.0 - weight_of(secs_of(now - self.start_time));
        let normalized = self.sm / total_weight;
        self.dsm = self.dsm * weight + normalized * (1.0 - weight);
        self.prev_steps = new;
        self.prev_time = now;
        true
    }
    /// transcription of Estimator::steps_per_second (src/state.rs:501-544)
    fn rate(&self, now: u64) -> f64 {
        let reweight = weight_of(secs_of(now.saturating_sub(self.prev_time)));
        let total_weight = 1.0 - weight_of(secs_of(now.saturating_sub(self.start_time)));
        if total_weight == 0.0 {
            return 0.0; // fix 56491a5
        }
        let sps = self.sm * reweight / total_weight;
        let dsps = self.dsm * reweight + sps * (1.0 - reweight);
        dsps / total_weight
    }
    fn reset_est(&mut self, now: u64) {
        self.prev_steps = self.pos;
        self.prev_time = now;
        self.start_time = now;
        self.reset_time = now;
        self.sm = 0.0;
        self.dsm = 0.0;
    }
    /// returns Some(recorded?) for ops that attempt a record
    fn step(&mut self, o: &Op, now: u64, len: &mut Option<u64>, t: &mut Table) -> Option<bool> {
        match o {
            Op::Adv(_) => None,
            Op::Query => {
                if !self.done {
                    t.age(now.saturating_sub(self.prev_time));
                    t.age(now.saturating_sub(self.start_time));
                }
                None
            }
            Op::SetPos(p) => {
                self.pos = *p;
                if self.allow(now) { Some(self.record(now, t)) } else { Some(false) }
            }
            Op::Inc(d) => {
                self.pos = self.pos.wrapping_add(*d);
                if self.allow(now) { Some(self.record(now, t)) } else { Some(false) }
            }
            Op::Dec(d) => {
                self.pos = self.pos.wrapping_sub(*d);
                if self.allow(now) { Some(self.record(now, t)) } else { Some(false) }
            }
            Op::UpdPos(p) => {
                self.pos = *p;
                Some(self.record(now, t))
            }
            Op::Tick | Op::SetMsg => Some(self.record(now, t)),
            Op::SetLen(l) => {
                *len = Some(*l);
                Some(self.record(now, t))
            }
            Op::UnsetLen => {
                *len = None;
                Some(self.record(now, t))
            }
            Op::ResetEta | Op::ResetElapsed => {
                self.reset_est(now);
                None
            }
            Op::ResetAll => {
                self.pos = 0;
                self.lprev = now.saturating_sub(self.lstart);
                self.done = false;
                self.reset_est(now);
                None
            }
            Op::Finish => {
                self.done = true;
                if let Some(l) = *len {
                    self.pos = l
                }
                None
            }
            Op::Abandon => {
                self.done = true;
                None
            }
        }
    }
}

/// one observation point with the context the oracle needs
#[derive(Clone, Debug)]
struct QRec {
    op_index: usize,
    t: u64,
    obs: Obs,
    explicit: bool,   // a Query op of the history (false: extra reading taken right after an update)
    done: bool,
    len: Option<u64>,
    pos: u64,
    est_start: u64,   // shadow: instant of the estimator's last restart
    reset_time: u64,  // shadow: instant of creation / the last reset_eta, reset_elapsed, reset call
    last_sample: u64, // shadow: instant of the last accepted sample (= est_start when none since the restart)
    sh_sm: f64,       // shadow transcription: smoothed, double smoothed, and its own steps_per_second
    sh_dsm: f64,
    sh_rate: f64,
    sh_reweight: f64, // shadow transcription: the weight 0.1^((t - last sample)/15 s) of this query
    stale: bool,      // shadow: at the last reset op prev_steps != position after the reset
    changed: bool,    // shadow: this op changed the estimator (accepted sample / restart) or finished the bar
}

struct Run {
    q: Vec<QRec>,
    tbl: Vec<(u64, u64)>,
    panic: Option<String>,
    points: Vec<(usize, u64, u64, bool)>, // (op index, time, position after the op, op was a reset)
    recorded: u64,
    throttled: u64,
    rewinds: u64,
    rewinds_same_instant: u64,
}

fn observe(pb: &ProgressBar) -> Result<Obs, String> {
    let per_sec = catch(|| pb.per_sec())?;
    let el = catch(|| pb.elapsed())?;
    // a panic inside eta()/duration() (Duration::new / from_secs_f64 overflow) poisons the bar's
    // mutex: report it as such (class `eta-panic`) instead of letting later calls fail
    let eta = catch(|| pb.eta()).map_err(|e| format!("eta() panicked: {e} (per_sec={per_sec})"))?;
    let dur = catch(|| pb.duration()).map_err(|e| format!("duration() panicked: {e} (per_sec={per_sec}, eta={eta:?})"))?;
    Ok(Obs { per_sec, eta: Some(eta), dur: Some(dur), el })
}

fn drive(len0: Option<u64>, t0: u64, ops: &[Op]) -> Run {
    set_auto_step_ns(0);
    set_clock_ns(t0);
    let mut run = Run { q: vec![], tbl: vec![], panic: None, points: vec![], recorded: 0, throttled: 0, rewinds: 0, rewinds_same_instant: 0 };
    let pb = match catch(|| ProgressBar::with_draw_target(len0, ProgressDrawTarget::hidden())) {
        Ok(pb) => pb,
        Err(e) => {
            run.panic = Some(format!("constructor: {e}"));
            return run;
        }
    };
    let mut sh = Shadow::new(t0);
    let mut len = len0;
    let mut tbl = Table::new();
    let mut stale = false;
    run.points.push((usize::MAX, t0, 0, true));
    for (i, o) in ops.iter().enumerate() {
        let now = clock_ns();
        if o.is_reset() {
            let after = if *o == Op::ResetAll { 0 } else { sh.pos };
            stale = sh.prev_steps != after;
        }
        if let Err(e) = catch(|| o.apply(&pb)) {
            run.panic = Some(format!("op #{i} {} panicked: {e}", o.coq()));
            break;
        }
        let before = (sh.prev_steps, sh.prev_time, sh.start_time, sh.done);
        let attempted = sh.step(o, now, &mut len, &mut tbl);
        let changed = before != (sh.prev_steps, sh.prev_time, sh.start_time, sh.done) || o.is_reset();
        match attempted {
            Some(true) => run.recorded += 1,
            Some(false) => {
                if matches!(o, Op::SetPos(_) | Op::Inc(_) | Op::Dec(_)) {
                    run.throttled += 1
                }
            }
            None => {}
        }
        let explicit = *o == Op::Query;
        if !matches!(o, Op::Adv(_)) {
            if !explicit {
                run.points.push((i, now, sh.pos, o.is_reset()));
            }
            // an extra (oracle-only) reading right after every update: start of a stall window
            match observe(&pb) {
                Ok(obs) => run.q.push(QRec {
                    op_index: i,
                    t: now,
                    obs,
                    explicit,
                    done: sh.done,
                    len,
                    pos: sh.pos,
                    est_start: sh.start_time,
                    reset_time: sh.reset_time,
                    last_sample: sh.prev_time,
                    sh_sm: sh.sm,
                    sh_dsm: sh.dsm,
                    sh_rate: sh.rate(now),
                    sh_reweight: weight_of(secs_of(now.saturating_sub(sh.prev_time))),
                    stale,
                    changed,
                }),
                Err(e) => {
                    run.panic = Some(if e.starts_with("eta()") || e.starts_with("duration()") {
                        format!("{e} after op #{i} {}", o.coq())
                    } else {
                        format!("query after op #{i} panicked: {e}")
                    });
                    break;
                }
            }
        }
    }
    // cross-check the shadow's view of position / length with the bar (cheap sanity)
    if run.panic.is_none() {
        match catch(|| (pb.position(), pb.length())) {
            Ok((p, l)) if p == sh.pos && l == len => {}
            Ok((p, l)) => {
                run.panic = Some(format!("harness shadow out of sync: bar pos={p} len={l:?}, shadow pos={} len={len:?}", sh.pos))
            }
            Err(e) => run.panic = Some(format!("position()/length() panicked: {e}")),
        }
    }
    // the bar may be poisoned by a panic under its mutex: dropping it must not take the harness down
    let _ = catch(move || drop(pb));
    run.tbl = tbl.order;
    run.rewinds = sh.rewinds;
    run.rewinds_same_instant = sh.rewinds_same_instant;
    run
}

// ------------------------------------------------------------------ oracle
const REL: f64 = 1e-9; // relative tolerance of every numeric comparison below

fn dns(d: Duration) -> u128 {
    d.as_nanos()
}

/// largest rate between two user-level points of the current epoch (since the last reset*
/// call), independent of which updates the estimator happened to record
fn max_pair_rate(points: &[(usize, u64, u64, bool)], upto_op: usize) -> f64 {
    let mut start = 0;
    for (k, p) in points.iter().enumerate() {
        if p.0 != usize::MAX && p.0 > upto_op {
            break;
        }
        if p.3 {
            start = k;
        }
    }
    let mut m = 0f64;
    let pts: Vec<_> = points[start..]
        .iter()
        .filter(|p| p.0 == usize::MAX || p.0 <= upto_op)
        .collect();
    for i in 0..pts.len() {
        for j in i + 1..pts.len() {
            let (ti, pi) = (pts[i].1, pts[i].2);
            let (tj, pj) = (pts[j].1, pts[j].2);
            if tj > ti && pj > pi {
                let r = (pj - pi) as f64 / ((tj - ti) as f64 / 1e9);
                if r > m {
                    m = r
                }
            }
        }
    }
    m
}

struct Stats {
    max_steady_dev: f64,
    max_discount_dev: f64,
    steady_between: u64,
    max_eta_dev_ns: f64,
    stall_rises: u64,
    stall_rises_known: u64,
    stall_windows: u64,
    underflow_seen: u64,
    d11_reported: u64,
    d32_reported: u64,
}

/// a failure of a KNOWN-finding class: reported KNOWN_CLASS_REPORT_CAP times, counted afterwards
fn fail_known(s: &mut Session, reported: &mut u64, class: &str, detail: String, desc: &str) {
    if *reported < KNOWN_CLASS_REPORT_CAP {
        *reported += 1;
        s.fail(class, detail, desc.to_string());
    } else {
        s.count(&format!("oracle_failure:{class}"));
    }
}

/// one reading inside a stall window
#[derive(Clone, Copy)]
struct WPt {
    t: u64,
    rate: f64,
    /// the harness's transcription reproduces this reading bit for bit
    shadow_agrees: bool,
}

/// the explicit stall discount of a steady stream (docs/C09.md, theorem C09_steady_every_instant):
/// with A = 0.1^((last sample - restart)/15 s), w = 0.1^((now - last sample)/15 s) the reported
/// rate is r * (1 - ((1-w)/(1-A w))^2); written in the product form that does not cancel for
/// small w
fn steady_discount(a: f64, w: f64) -> f64 {
    let n = 1.0 - a * w;
    (1.0 - a) * w * (2.0 - w - a * w) / (n * n)
}

/// Direct statement of C09 on the implementation's outputs.
fn oracle(s: &mut Session, st: &mut Stats, desc: &str, ops: &[Op], run: &Run, steady: Option<f64>) {
    if let Some(p) = &run.panic {
        // eta()/duration() must return for every rate (theorem C09_f64_eta_duration_total: the
        // conversion secs_to_duration / Duration::new is total on every binary64 datum)
        let class = if p.starts_with("eta()") || p.starts_with("duration()") { "eta-panic" } else { "panic" };
        s.fail(class, p.clone(), desc.to_string());
        return;
    }
    // stall windows: maximal runs of readings during which the estimator received no sample and
    // was not restarted (calls that do not reach it - a tick without progress, an update
    // throttled by the position limiter - do not end the stall).  SCOPE DECISION taken from the
    // shadow (`changed`): where a window starts.  A wrong shadow shows up as a correspondence
    // mismatch (missing powf entry), so it cannot silently hide a rise.
    let mut window: Vec<WPt> = vec![];
    let mut window_m = 0f64;
    let mut window_sd = (0f64, 0f64); // shadow (smoothed, double_smoothed) at the last sample
    let flush = |s: &mut Session, st: &mut Stats, w: &mut Vec<WPt>, m: f64, sd: (f64, f64)| {
        if w.len() >= 2 {
            st.stall_windows += 1;
            // monotone decay while stalled.  A rise is the KNOWN class D11 only if its CAUSE is
            // established:
            //  (a) smoothed > double_smoothed at the last accepted sample (theorem
            //      C09_stall_rise_iff: over R the stalled rate can exceed the rate at the last
            //      sample iff this holds; C09_decay_when_d_ge_s: otherwise it decays), decided on
            //      the harness's own binary64 transcription of the two averages, and
            //  (b) that transcription reproduces EVERY reading of the window bit for bit, i.e.
            //      its state is the implementation's as far as observable, and
            //  (c) the shape is the one the cause explains: the rise comes first, no rise after
            //      a fall (the stalled rate is a concave parabola in v = W(x)/(1 - A W(x))).
            // Any other rise is class `stall-nonmonotone` (unlisted: a VIOLATION).
            let mut first_rise = None;
            let mut fallen = false;
            let mut unimodal = true;
            for k in 1..w.len() {
                if w[k].rate > w[k - 1].rate * (1.0 + REL) && w[k].rate - w[k - 1].rate > 1e-300 {
                    if first_rise.is_none() {
                        first_rise = Some(k);
                    }
                    if fallen {
                        unimodal = false;
                    }
                } else if w[k].rate < w[k - 1].rate * (1.0 - REL) {
                    fallen = true;
                }
            }
            if let Some(k) = first_rise {
                st.stall_rises += 1;
                let cause = sd.0 > sd.1;
                let agrees = w.iter().all(|p| p.shadow_agrees);
                let known = cause && agrees && unimodal;
                if known {
                    st.stall_rises_known += 1;
                }
                let detail =
                    format!(
                        "stalled since t={}ns: per_sec {} at +{}ns < {} at +{}ns (rate must decay monotonically while no progress is made); at the last sample smoothed={} double_smoothed={} (transcription {} the readings), rise first: {}",
                        w[0].t, w[k - 1].rate, w[k - 1].t - w[0].t, w[k].rate, w[k].t - w[0].t,
                        sd.0, sd.1, if agrees { "reproduces" } else { "does NOT reproduce" }, unimodal
                    );
                if known {
                    fail_known(s, &mut st.d11_reported, "stall-rise-after-acceleration", detail, desc);
                } else {
                    s.fail("stall-nonmonotone", detail, desc.to_string());
                }
            }
            // decays TOWARDS ZERO: envelope 2*M*W(x), x = length of the stall
            for k in 1..w.len() {
                let x = (w[k].t - w[0].t) as f64 / 1e9;
                let env = 2.0 * m * (10f64).powf(-x / 15.0);
                if w[k].rate > env * (1.0 + 1e-6) + 1e-300 {
                    s.fail(
                        "stall-no-decay",
                        format!("stalled for {x}s: per_sec {} above the envelope 2*M*0.1^(x/15) = {env} (M={m})", w[k].rate),
                        desc.to_string(),
                    );
                    break;
                }
            }
        }
        w.clear();
    };
    for q in &run.q {
        let o = &ops[q.op_index];
        // the property's domain: strictly after creation / the last reset_eta, reset_elapsed, reset
        let in_scope = q.t > q.reset_time;
        // the estimator was restarted at this very clock reading; inside the domain that can only
        // be a recorded backwards seek (SCOPE DECISION from the shadow)
        let at_restart = q.t == q.est_start;
        let is_update = !q.explicit;
        if is_update && q.changed {
            flush(s, st, &mut window, window_m, window_sd);
        }
        let ob = &q.obs;
        let (eta, dur) = match (ob.eta, ob.dur) {
            (Some(e), Some(d)) => (e, d),
            _ => {
                s.fail("panic", format!("eta()/duration() panicked at op #{}", q.op_index), desc.to_string());
                return;
            }
        };
        if ob.el != Duration::from_nanos(q.t - run_started(ops, run, q.op_index)) {
            s.fail("elapsed", format!("elapsed()={:?} at op #{}", ob.el, q.op_index), desc.to_string());
        }
        if q.done {
            // finished bars: eta = duration = 0; per_sec = pos / elapsed (finite strictly after start)
            if eta != Duration::ZERO || dur != Duration::ZERO {
                s.fail("eta-finished", format!("finished but eta={eta:?} duration={dur:?}"), desc.to_string());
            }
            if ob.el > Duration::ZERO && !(ob.per_sec.is_finite() && ob.per_sec >= 0.0) {
                s.fail("not-finite", format!("finished per_sec={} elapsed={:?}", ob.per_sec, ob.el), desc.to_string());
            }
            window.clear();
            continue;
        }
        if !in_scope {
            window.clear();
            continue;
        }
        // (1) finite and non-negative strictly after creation / last reset
        if !(ob.per_sec.is_finite() && ob.per_sec >= 0.0) {
            // NaN at the instant of a recorded backwards seek was the defect fixed by 56491a5
            // (0.0 * 1.0 / 0.0; regression theorems C09_*_rewind_instant_*_pre_56491a5): its own
            // class, a VIOLATION if it reappears
            let class = if at_restart && ob.per_sec.is_nan() { "nan-at-backwards-seek-instant" } else { "not-finite" };
            s.fail(
                class,
                format!("per_sec={} at op #{} ({}), t={} > creation / last reset {} (estimator start {})", ob.per_sec, q.op_index, o.coq(), q.t, q.reset_time, q.est_start),
                desc.to_string(),
            );
            window.clear();
            continue;
        }
        // (2) between zero and the largest rate observed
        let m = max_pair_rate(&run.points, q.op_index);
        if ob.per_sec > m * (1.0 + REL) {
            s.fail(
                if q.stale { "reset-stale-baseline" } else { "rate-above-max" },
                format!("per_sec={} at op #{} exceeds the largest observed rate {m}", ob.per_sec, q.op_index),
                desc.to_string(),
            );
        }
        // (2b) the rate is zero exactly when no progress has been seen since the last restart
        // (SCOPE DECISION from the shadow: a sample was accepted since then).  A zero although
        // progress was seen is the binary64 underflow artefact when the stall is long enough for
        // the weight to have left the normal range, and a violation otherwise.
        let seen = q.last_sample > q.est_start;
        let stall_ns = q.t - q.last_sample;
        if seen && ob.per_sec == 0.0 {
            // CAUSE of D32, decided per reading on the harness's own binary64 transcription: the
            // weight of this query has left the normal range (subnormal or zero: every product
            // average * weight below 2^-1075 is flushed to 0, e.g. any average <= 0.5 at the
            // smallest subnormal weight) AND the transcription's steps_per_second is 0 as well
            let weight_underflowed = q.sh_reweight < f64::MIN_POSITIVE;
            if weight_underflowed && q.sh_rate == 0.0 {
                st.underflow_seen += 1;
                if stall_ns < STALL_SUBNORMAL_NS {
                    // the real-number threshold theorem says the exact weight is still normal here
                    s.count("weight-underflow:subnormal-before-4615s");
                }
                fail_known(
                    s,
                    &mut st.d32_reported,
                    "rate-underflow-after-long-stall",
                    format!("per_sec=0 and eta={eta:?} at op #{}, {} s after the last accepted sample, although progress has been seen: the weight 0.1^(x/15) of this query is {:e} (subnormal or zero; below 2^-1022 from 4615 s, rounds to 0 from 4855 s) and smoothed*weight, double_smoothed*weight are flushed to 0 (smoothed={}, double_smoothed={})", q.op_index, stall_ns as f64 / 1e9, q.sh_reweight, q.sh_sm, q.sh_dsm),
                    desc,
                );
            } else {
                s.fail(
                    "rate-zero-although-progress-seen",
                    format!("per_sec=0 at op #{} {} s after the last accepted sample; weight of the query {:e}, transcription's rate {}", q.op_index, stall_ns as f64 / 1e9, q.sh_reweight, q.sh_rate),
                    desc.to_string(),
                );
            }
        }
        if !seen && ob.per_sec != 0.0 {
            s.fail(
                "rate-nonzero-without-progress",
                format!("per_sec={} at op #{} although no sample was accepted since the restart at {}", ob.per_sec, q.op_index, q.est_start),
                desc.to_string(),
            );
        }
        if stall_ns >= STALL_ZERO_NS && ob.per_sec != 0.0 && seen {
            // not a property failure (a non-zero tiny rate is what the property wants); the
            // threshold theorem predicts 0 for every round-to-nearest powf
            s.count("weight-underflow:nonzero-rate-beyond-4855s");
        }
        // (3) steady progress: the reported rate is r * discount at EVERY reading, the discount
        // being 1 exactly at the instant of the last accepted sample
        if let Some(r) = steady {
            let a = weight_of(secs_of(q.last_sample - q.est_start));
            let w = weight_of(secs_of(stall_ns));
            if seen && stall_ns < STALL_SUBNORMAL_NS {
                let want = r * steady_discount(a, w);
                let dev = ((ob.per_sec - want) / want).abs();
                if stall_ns == 0 {
                    if dev > st.max_steady_dev {
                        st.max_steady_dev = dev
                    }
                    if dev > REL {
                        s.fail(
                            "steady-rate-inexact",
                            format!("steady rate {r}/s but per_sec={} at the instant of the last accepted sample, op #{} (relative deviation {dev:e})", ob.per_sec, q.op_index),
                            desc.to_string(),
                        );
                    }
                } else {
                    st.steady_between += 1;
                    if dev > st.max_discount_dev {
                        st.max_discount_dev = dev
                    }
                    if dev > REL {
                        s.fail(
                            "steady-discount-mismatch",
                            format!("steady rate {r}/s, {} s after the last accepted sample: per_sec={} but r*(1-((1-w)/(1-A w))^2) = {want} (relative deviation {dev:e})", stall_ns as f64 / 1e9, ob.per_sec),
                            desc.to_string(),
                        );
                    }
                }
            }
        }
        // (4) eta = remaining / rate, 0 for unknown length / no progress; duration = elapsed + eta
        match q.len {
            None => {
                if eta != Duration::ZERO || dur != Duration::ZERO {
                    s.fail("eta-unknown-length", format!("no length but eta={eta:?} duration={dur:?}"), desc.to_string());
                }
            }
            Some(len) => {
                if ob.per_sec == 0.0 {
                    if eta != Duration::ZERO {
                        s.fail("eta-no-progress", format!("rate 0 but eta={eta:?}"), desc.to_string());
                    }
                } else {
                    let want = len.saturating_sub(q.pos) as f64 / ob.per_sec; // seconds
                    let got = dns(eta) as f64 / 1e9;
                    let sat = u64::MAX as f64;
                    let ok = if want >= sat { got >= sat * (1.0 - REL) } else { (got - want).abs() <= 2e-9 + want * 1e-12 };
                    let dev = (got - want).abs() * 1e9;
                    if want < 1e6 && dev > st.max_eta_dev_ns {
                        st.max_eta_dev_ns = dev
                    }
                    if !ok {
                        s.fail("eta-formula", format!("eta={eta:?} but remaining/rate = {want}s (op #{})", q.op_index), desc.to_string());
                    }
                }
                if dur != ob.el.saturating_add(eta) {
                    s.fail("duration-sum", format!("duration={dur:?} elapsed={:?} eta={eta:?}", ob.el), desc.to_string());
                }
            }
        }
        if window.is_empty() {
            window_m = m;
            window_sd = (q.sh_sm, q.sh_dsm);
        }
        window.push(WPt { t: q.t, rate: ob.per_sec, shadow_agrees: fbits(q.sh_rate) == fbits(ob.per_sec) });
    }
    flush(s, st, &mut window, window_m, window_sd);
}

/// instant `started` of the bar at op index i (creation, or the last reset()/reset_elapsed())
fn run_started(ops: &[Op], run: &Run, upto: usize) -> u64 {
    let mut started = run.points[0].1;
    for p in &run.points[1..] {
        if p.0 <= upto && matches!(ops[p.0], Op::ResetAll | Op::ResetElapsed) {
            started = p.1;
        }
    }
    started
}

// ------------------------------------------------------------------ case emission
/// Coq number literal (see `u` / `uu` in model/Estimator.v: primitive-int literals parse 10x faster)
fn num(x: u128) -> String {
    if x < 1_000_000 {
        format!("{x}")
    } else if x < (1u128 << 63) {
        format!("(u {x})")
    } else {
        format!("(uu {} {})", x >> 63, x & ((1u128 << 63) - 1))
    }
}

fn fbits(x: f64) -> u64 {
    if x.is_nan() { NAN_BITS } else { x.to_bits() }
}

fn emit(s: &mut Session, st: &mut Stats, kind: &str, len0: Option<u64>, t0: u64, ops: &[Op], flocq: bool, steady: Option<f64>) -> Run {
    let run = drive(len0, t0, ops);
    let desc = format!(
        "{kind} len0={:?} t0={} ops=[{}]",
        len0,
        t0,
        ops.iter().map(|o| o.coq()).collect::<Vec<_>>().join("; ")
    );
    oracle(s, st, &desc, ops, &run, steady);
    s.count(&format!("kind:{kind}"));
    for o in ops {
        let k = o.coq();
        s.count(&format!("op:{}", k.split(' ').next().unwrap()));
        if let Op::Adv(g) = o {
            let b = match *g {
                0 => "0",
                1..=999_999 => "<1ms",
                1_000_000..=999_999_999 => "1ms..1s",
                1_000_000_000..=59_999_999_999 => "1s..1min",
                60_000_000_000..=3_599_999_999_999 => "1min..1h",
                3_600_000_000_000..=86_399_999_999_999 => "1h..1d",
                _ => ">=1d",
            };
            s.count(&format!("gap:{b}"));
        }
        if let Op::SetPos(p) | Op::UpdPos(p) = o {
            s.count(&format!("pos:1e{}", if *p == 0 { 0 } else { (*p as f64).log10() as u32 }));
        }
    }
    if kind.starts_with("steady") {
        // cadence of the stream: time between consecutive position-changing calls
        let mut since_update = 0u64;
        for o in ops {
            match o {
                Op::Adv(g) => since_update = since_update.saturating_add(*g),
                Op::SetPos(_) | Op::Inc(_) | Op::UpdPos(_) => {
                    let b = match since_update {
                        0..=999_999 => "<1ms",
                        1_000_000..=999_999_999 => "1ms..1s",
                        1_000_000_000..=3_599_999_999_999 => "1s..1h",
                        _ => ">1h",
                    };
                    s.count(&format!("steady-cadence:{b}"));
                    since_update = 0;
                }
                Op::Tick | Op::SetMsg => s.count("steady-interleaved:tick/set_message"),
                _ => {}
            }
        }
    }
    s.count_n("updates:recorded", run.recorded);
    s.count_n("updates:throttled_by_limiter", run.throttled);
    if run.rewinds > 0 {
        s.count_n(&format!("rewind:recorded({kind})"), run.rewinds);
    }
    if run.rewinds_same_instant > 0 {
        s.count_n(&format!("rewind:recorded-at-now==prev_time({kind})"), run.rewinds_same_instant);
    }
    let nq = run.q.iter().filter(|q| q.explicit).count();
    s.count_n("queries", nq as u64);
    for q in run.q.iter().filter(|q| q.explicit) {
        if q.obs.per_sec.is_nan() {
            s.count("query:per_sec_nan(at restart instant)");
        } else if q.obs.per_sec == 0.0 {
            s.count("query:per_sec_zero");
        } else {
            s.count("query:per_sec_positive");
        }
        if q.done {
            s.count("query:finished");
        }
    }
    if flocq {
        s.count("cases_also_checked_with_flocq_instance");
    }
    if run.panic.is_some() {
        s.oracle_only(desc, true);
        return run;
    }
    let observed = clist(run.q.iter().filter(|q| q.explicit).map(|q| {
        format!(
            "({}, {}, {}, {})",
            num(fbits(q.obs.per_sec) as u128),
            copt(q.obs.eta.map(|d| num(dns(d)))),
            copt(q.obs.dur.map(|d| num(dns(d)))),
            num(dns(q.obs.el))
        )
    }));
    let coq = format!(
        "({}, {}, {}, {}, {}, {})",
        cbool(flocq),
        copt(len0.map(|x| num(x as u128))),
        num(t0 as u128),
        clist(ops.iter().map(|o| o.coq_term())),
        clist(run.tbl.iter().map(|(a, w)| format!("({}, {})", num(*a as u128), num(*w as u128)))),
        observed
    );
    let nontrivial = nq >= 1 && run.recorded >= 1;
    s.case(coq, desc, nontrivial);
    run
}

// ------------------------------------------------------------------ generators
fn gap(r: &mut Rng) -> u64 {
    match r.below(16) {
        0 => 0,
        1 => 1,
        2 => r.range(2, 999_999),
        3 => *r.pick(&[999_999, MS, MS + 1]),
        4..=6 => r.range(MS, S),
        7..=9 => r.range(S, 60 * S),
        10..=11 => r.range(60 * S, 3600 * S),
        12 => r.range(3600 * S, 86_400 * S),
        13 => r.range(86_400 * S, 30 * 86_400 * S),
        14 => *r.pick(&[15 * S, 30 * S, 4845 * S, 4860 * S, 20_000 * S]),
        _ => r.range(1, 100) * MS,
    }
}
fn gap_ms(r: &mut Rng) -> u64 {
    // >= 1 ms: set_position/inc always pass the limiter
    loop {
        let g = gap(r);
        if g >= MS {
            return g;
        }
    }
}
fn magnitude(r: &mut Rng) -> u64 {
    let e = r.below(19) as u32;
    let lo = 10u64.pow(e);
    r.range(lo, lo.saturating_mul(9))
}
fn t0_of(r: &mut Rng) -> u64 {
    match r.below(4) {
        0 => 0,
        1 => 1_000_000_000_000_000,
        _ => r.below(1 << 50),
    }
}

/// random mixed history (all ops, all gap classes incl. 0 and sub-ms)
fn gen_mixed(r: &mut Rng) -> (Option<u64>, Vec<Op>) {
    let len0 = match r.below(5) {
        0 => None,
        1 => Some(magnitude(r)),
        2 => Some(0),
        _ => Some(r.range(1, 1_000_000)),
    };
    let n = r.range(1, 30);
    let mut ops = vec![];
    let mut pos: u64 = 0;
    let scale = if r.chance(1, 3) { magnitude(r) } else { r.range(1, 1000) };
    for _ in 0..n {
        if r.chance(4, 5) {
            ops.push(Op::Adv(gap(r)));
        }
        let o = match r.below(24) {
            0..=5 => {
                pos = pos.saturating_add(r.range(0, scale));
                Op::SetPos(pos)
            }
            6..=9 => {
                let d = r.range(0, scale);
                pos = pos.wrapping_add(d);
                Op::Inc(d)
            }
            10 => {
                let d = r.range(0, scale.min(pos.max(1)));
                pos = pos.wrapping_sub(d);
                Op::Dec(d)
            }
            11..=13 => {
                pos = pos.saturating_add(r.range(0, scale));
                Op::UpdPos(pos)
            }
            14 => {
                pos = r.below(pos.max(1)); // backwards seek
                if r.chance(1, 2) { Op::SetPos(pos) } else { Op::UpdPos(pos) }
            }
            15 => if r.chance(1, 2) { Op::Tick } else { Op::SetMsg },
            16 => Op::SetLen(if r.chance(1, 2) { pos.saturating_add(r.range(0, scale.saturating_mul(10).min(1 << 62))) } else { magnitude(r) }),
            17 => if r.chance(1, 3) { Op::UnsetLen } else { Op::Tick },
            18 => Op::ResetEta,
            19 => if r.chance(1, 2) { Op::ResetElapsed } else { Op::ResetEta },
            20 => {
                pos = 0;
                Op::ResetAll
            }
            21 => if r.chance(1, 3) { if r.chance(1, 2) { Op::Finish } else { Op::Abandon } } else { Op::Query },
            _ => Op::Query,
        };
        ops.push(o);
        if r.chance(1, 3) {
            if r.chance(1, 2) {
                ops.push(Op::Adv(gap(r)));
            }
            ops.push(Op::Query);
        }
    }
    (len0, ops)
}

/// steady progress on a line, irregular cadence (gaps are random multiples of a unit >= 1 ms),
/// optional reset*/backwards seek in the middle after which the line restarts
fn gen_steady(r: &mut Rng) -> (Option<u64>, Vec<Op>, f64) {
    let unit = match r.below(4) {
        0 => MS,
        1 => r.range(MS, 50 * MS),
        2 => S,
        _ => r.range(MS, 10 * S),
    };
    let k = if r.chance(1, 2) { r.range(1, 1000) } else { magnitude(r) % 1_000_000_000_000 + 1 };
    let rate = k as f64 / (unit as f64 / 1e9);
    let n = r.range(1, 40);
    let mut ops = vec![];
    let mut pos: u64 = 0;
    let maxmul = *r.pick(&[1u64, 3, 20, 1000, 100_000]);
    for _ in 0..n {
        let m = r.range(1, maxmul);
        if pos.checked_add(m.saturating_mul(k)).is_none() || m.saturating_mul(k) > (1 << 62) {
            break;
        }
        // one gap in four is split by a query BETWEEN two samples (the line is not disturbed)
        if r.chance(1, 4) && m * unit >= 2 {
            let g1 = r.range(1, m * unit - 1);
            ops.push(Op::Adv(g1));
            ops.push(Op::Query);
            ops.push(Op::Adv(m * unit - g1));
        } else {
            ops.push(Op::Adv(m * unit));
        }
        pos += m * k;
        ops.push(match r.below(3) {
            0 => Op::SetPos(pos),
            1 => Op::Inc(m * k),
            _ => Op::UpdPos(pos),
        });
        match r.below(12) {
            0 => ops.push(Op::Query),
            1 => {
                ops.push(Op::Adv(r.range(0, 3) * unit));
                ops.push(r.pick(&[Op::ResetEta, Op::ResetElapsed, Op::ResetEta]).clone());
            }
            2 => {
                // restart: reset() or a backwards seek, then the line continues from the new position
                if r.chance(1, 2) {
                    ops.push(Op::Adv(r.range(0, 2) * unit));
                    ops.push(Op::ResetAll);
                    pos = 0;
                } else if pos > 1 {
                    ops.push(Op::Adv(r.range(1, 3) * unit));
                    pos = r.below(pos);
                    ops.push(Op::UpdPos(pos));
                }
            }
            _ => {}
        }
    }
    ops.push(Op::Query);
    // ... and after the last sample: the stall discount of a steady stream
    if r.chance(1, 2) {
        ops.push(Op::Adv(gap(r).min(5000 * S)));
        ops.push(Op::Query);
    }
    let len = if r.chance(1, 4) { None } else { Some(pos.saturating_add(r.range(0, k.saturating_mul(1000).min(1 << 62)))) };
    (len, ops, rate)
}

/// steady progress at SUB-MILLISECOND cadence (the position limiter throttles most set_position /
/// inc calls; the throttled positions are folded into the next accepted segment) with interleaved
/// tick() / set_message() calls that reach the estimator with an unchanged position: at the instant
/// of the update they follow, or - after an update(..), which is always recorded - in the middle of
/// a gap (the estimator ignores a call that brings no new position; theorem C09_bar_steady_line)
fn gen_steady_fast(r: &mut Rng) -> (Option<u64>, Vec<Op>, f64) {
    let unit = r.range(20_000, 900_000);
    let k = r.range(1, 50);
    let rate = k as f64 / (unit as f64 / 1e9);
    let n = r.range(5, 60);
    let mut ops = vec![];
    let mut pos = 0u64;
    let mut last_recorded = false;
    for _ in 0..n {
        let m = r.range(1, 4);
        let gap = m * unit;
        if last_recorded && r.chance(1, 3) {
            let g1 = r.range(1, gap - 1);
            ops.push(Op::Adv(g1));
            ops.push(if r.chance(1, 2) { Op::Tick } else { Op::SetMsg });
            if r.chance(1, 3) {
                ops.push(Op::Query);
            }
            ops.push(Op::Adv(gap - g1));
        } else if r.chance(1, 6) {
            let g1 = r.range(1, gap - 1);
            ops.push(Op::Adv(g1));
            ops.push(Op::Query);
            ops.push(Op::Adv(gap - g1));
        } else {
            ops.push(Op::Adv(gap));
        }
        pos += m * k;
        let o = match r.below(4) {
            0 => Op::SetPos(pos),
            1 => Op::Inc(m * k),
            _ => Op::UpdPos(pos),
        };
        last_recorded = matches!(o, Op::UpdPos(_));
        ops.push(o);
        if r.chance(1, 3) {
            // at the very instant of the update: on the line whatever the limiter decided
            ops.push(if r.chance(1, 2) { Op::Tick } else { Op::SetMsg });
            last_recorded = true;
        }
        if r.chance(1, 5) {
            ops.push(Op::Query);
        }
    }
    ops.push(Op::Query);
    if r.chance(1, 2) {
        ops.push(Op::Adv(gap(r).min(600 * S)));
        ops.push(Op::Query);
    }
    let len = if r.chance(1, 4) { None } else { Some(pos + r.range(0, 100_000)) };
    (len, ops, rate)
}

/// a phase of progress at one rate, a phase at another (acceleration or deceleration), then a
/// stall observed at increasing instants
fn gen_stall(r: &mut Rng) -> (Option<u64>, Vec<Op>) {
    let mut ops = vec![];
    let mut pos = 0u64;
    let phases = r.range(1, 3);
    for _ in 0..phases {
        let per = r.range(1, 10_000);
        let g = gap_ms(r).min(120 * S);
        for _ in 0..r.range(1, 40) {
            ops.push(Op::Adv(g));
            pos += per;
            ops.push(if r.chance(1, 2) { Op::SetPos(pos) } else { Op::UpdPos(pos) });
        }
    }
    let fine = r.chance(1, 2);
    for k in 0..r.range(2, 14) {
        let g = if fine { r.range(1, 2000) * MS } else { gap(r) };
        ops.push(Op::Adv(if k == 0 && r.chance(1, 2) { 0 } else { g }));
        ops.push(if r.chance(1, 8) { Op::Tick } else { Op::Query });
    }
    ops.push(Op::Query);
    (Some(pos + r.range(0, 100_000)), ops)
}

// ------------------------------------------------------------------ forgetting (metamorphic)
#[derive(Clone, Debug)]
enum Restart {
    Eta,
    Elapsed,
    All,
    Rewind(u64), // backwards seek to this position (recorded: preceded by a recorded higher sample)
}

/// suffix step: (gap >= 1 ms, increment, how)
type Suffix = Vec<(u64, u64, u8)>;

/// `prefix ; restart ; suffix` on one bar versus `suffix` on a FRESH bar created at the instant of
/// the restart: everything observable afterwards must be bit-identical, i.e. nothing that
/// happened before the restart is remembered.
fn forget_case(s: &mut Session, st: &mut Stats, kind: &str, len0: Option<u64>, t0: u64, prefix: &[Op], rs: Restart, suffix: &Suffix, flocq: bool) {
    // position and length right before the restart (replay of the public-API semantics)
    let (mut pos, mut len, mut t) = (0u64, len0, t0);
    for o in prefix {
        match o {
            Op::Adv(g) => t += g,
            Op::SetPos(p) | Op::UpdPos(p) => pos = *p,
            Op::Inc(d) => pos = pos.wrapping_add(*d),
            Op::Dec(d) => pos = pos.wrapping_sub(*d),
            Op::SetLen(l) => len = Some(*l),
            Op::UnsetLen => len = None,
            Op::ResetAll => pos = 0,
            _ => {}
        }
    }
    let mut ops: Vec<Op> = prefix.to_vec();
    let base = match rs {
        Restart::Eta => { ops.push(Op::ResetEta); pos }
        Restart::Elapsed => { ops.push(Op::ResetElapsed); pos }
        Restart::All => { ops.push(Op::ResetAll); 0 }
        Restart::Rewind(q) => { ops.push(Op::UpdPos(q)); q }
    };
    let r_index = ops.len() - 1;
    let mut twin: Vec<Op> = vec![];
    let mut cum = 0u64;
    for (g, d, how) in suffix {
        ops.push(Op::Adv(*g));
        twin.push(Op::Adv(*g));
        cum += d;
        match how {
            0 => { ops.push(Op::SetPos(base + cum)); twin.push(Op::SetPos(cum)); }
            1 => { ops.push(Op::Inc(*d)); twin.push(Op::Inc(*d)); }
            2 => { ops.push(Op::UpdPos(base + cum)); twin.push(Op::UpdPos(cum)); }
            _ => { ops.push(Op::Tick); twin.push(Op::Tick); cum -= d; }
        }
        ops.push(Op::Query);
        twin.push(Op::Query);
    }
    let run = emit(s, st, kind, len0, t0, &ops, flocq, None);
    if run.panic.is_some() {
        return;
    }
    let twin_len = len.map(|l| l.saturating_sub(base));
    let run2 = drive(twin_len, t, &twin);
    let desc = format!(
        "{kind} len0={:?} t0={} ops=[{}]",
        len0,
        t0,
        ops.iter().map(|o| o.coq()).collect::<Vec<_>>().join("; ")
    );
    if let Some(p) = run2.panic {
        s.fail("panic", format!("fresh twin: {p}"), desc);
        return;
    }
    let a: Vec<&QRec> = run.q.iter().filter(|q| q.explicit && q.op_index > r_index).collect();
    let b: Vec<&QRec> = run2.q.iter().filter(|q| q.explicit).collect();
    let same_started = matches!(rs, Restart::Elapsed | Restart::All);
    let stale = run.q.iter().find(|q| q.op_index == r_index).map(|q| q.stale).unwrap_or(false);
    for (x, y) in a.iter().zip(b.iter()) {
        let mut bad = fbits(x.obs.per_sec) != fbits(y.obs.per_sec) || x.obs.eta != y.obs.eta;
        if same_started {
            bad |= x.obs.el != y.obs.el || x.obs.dur != y.obs.dur;
        }
        if bad {
            let class = match rs {
                Restart::Rewind(_) => "rewind-remembers-history",
                _ if stale => "reset-stale-baseline",
                _ => "reset-remembers-history",
            };
            s.fail(
                class,
                format!(
                    "after {:?} at t={t}: per_sec={} eta={:?} (op #{}), a fresh bar created at that instant and fed the same updates reports per_sec={} eta={:?}",
                    rs, x.obs.per_sec, x.obs.eta, x.op_index, y.obs.per_sec, y.obs.eta
                ),
                desc,
            );
            return;
        }
    }
    s.count(&format!("forget:{}", match rs { Restart::Eta => "reset_eta", Restart::Elapsed => "reset_elapsed", Restart::All => "reset", Restart::Rewind(_) => "backwards_seek" }));
    if stale {
        s.count("forget:baseline_was_stale_before_fix");
    }
    s.oracle_only(format!("twin of: {desc}"), true);
}

fn gen_forget(r: &mut Rng) -> (Option<u64>, Vec<Op>, Restart, Suffix) {
    let (len0, mut prefix) = gen_mixed(r);
    prefix.retain(|o| !matches!(o, Op::Finish | Op::Abandon | Op::Query));
    // keep positions small enough that base + suffix cannot overflow
    let mut pos = 0u64;
    let mut ok = true;
    for o in &prefix {
        match o {
            Op::SetPos(p) | Op::UpdPos(p) => pos = *p,
            Op::Inc(d) => pos = pos.wrapping_add(*d),
            Op::Dec(d) => pos = pos.wrapping_sub(*d),
            Op::ResetAll => pos = 0,
            _ => {}
        }
        if pos > (1 << 62) {
            ok = false;
        }
    }
    if !ok {
        prefix.clear();
        pos = 0;
    }
    let rs = match r.below(5) {
        0 => Restart::Eta,
        1 => Restart::Elapsed,
        2 => Restart::All,
        3 if r.chance(1, 2) => {
            // leave an unrecorded step right before the reset (stale baseline before the fix)
            prefix.push(Op::Adv(gap_ms(r)));
            prefix.push(Op::UpdPos(pos + 1));
            prefix.push(Op::Inc(r.range(1, 1000)));
            Restart::Eta
        }
        _ => {
            prefix.push(Op::Adv(gap_ms(r)));
            prefix.push(Op::UpdPos(pos + 2));
            prefix.push(Op::Adv(gap(r)));
            Restart::Rewind(r.below(pos + 2))
        }
    };
    let n = r.range(1, 12);
    let scale = if r.chance(1, 4) { magnitude(r) >> 8 } else { r.range(1, 1000) };
    let suffix = (0..n).map(|_| (gap_ms(r), r.range(1, scale.max(1)), r.below(8).min(3) as u8)).collect();
    (len0, prefix, rs, suffix)
}

fn main() {
    let _ = catch(|| ());
    if std::env::var("C09_DEBUG").is_ok() {
        std::panic::set_hook(Box::new(|i| eprintln!("PANIC {i}")));
    }
    let a = args();
    let header = "From Coq Require Import Uint63.\nFrom IndModel Require Import Base Estimator EstimatorFloat.\nOpen Scope N_scope.\n";
    let mut s = Session::new(
        &a,
        "C09",
        header,
        "est_case",
        "est_check",
    );
    s.rule = "histories of set_position/inc/dec/update(set_pos)/tick/set_length/unset_length/reset_eta/reset_elapsed/reset/finish/abandon and clock advances (0, 1 ns, sub-ms, 1 ms .. 30 days) on a hidden bar under the mock clock, observed by per_sec/eta/duration/elapsed; four generators: mixed (all ops, positions 1e0..1e19), steady (points on a line, irregular multiples of a unit gap >= 1 ms, restarts allowed, queries at, between and after the samples), steady-fast (the same at sub-millisecond cadence, where the position limiter throttles, with interleaved tick()/set_message() calls), stall (two phases then queries at increasing instants), forget (prefix; reset*/backwards seek; suffix vs the suffix on a fresh bar); non-trivial = at least one recorded sample and one query; distinct = distinct case text".into();
    s.shard_size = 100;
    let mut st = Stats {
        max_steady_dev: 0.0,
        max_discount_dev: 0.0,
        steady_between: 0,
        max_eta_dev_ns: 0.0,
        stall_rises: 0,
        stall_rises_known: 0,
        stall_windows: 0,
        underflow_seen: 0,
        d11_reported: 0,
        d32_reported: 0,
    };
    let mut r = Rng::new(a.seed);

    // ---- corpus (flocq instance on for all of them)
    // FIRST case of every run, so that the KNOWN-FINDING line of D32 always quotes this deterministic witness:
    // binary64 underflow of the weight, thresholds of Theorem C09_weight_underflow_thresholds
    {
        let ops = vec![
            Op::Adv(S), Op::UpdPos(1000), Op::Query,
            Op::Adv(4614 * S), Op::Query, Op::Adv(S), Op::Query,              // 4614 s, 4615 s
            Op::Adv(239 * S), Op::Query, Op::Adv(S), Op::Query,              // 4854 s, 4855 s
            Op::Adv(100_000 * S), Op::Query,
        ];
        let run = emit(&mut s, &mut st, "corpus-weight-underflow", Some(1_000_000), 0, &ops, true, None);
        let qs: Vec<&QRec> = run.q.iter().filter(|q| q.explicit).collect();
        let desc = "corpus-weight-underflow".to_string();
        if qs.len() == 6 {
            let p: Vec<f64> = qs.iter().map(|q| q.obs.per_sec).collect();
            s.notes.push(format!(
                "weight underflow on the implementation (1000 steps in 1 s, then a stall): per_sec {:e} after 4614 s, {:e} after 4615 s, {:e} after 4854 s, {:e} after 4855 s (eta {:?}), {:e} after 104855 s; Coq: 0.1^(x/15) < 2^-1022 from 4615 s, < 2^-1075 (rounds to 0) from 4855 s",
                p[1], p[2], p[3], p[4], qs[4].obs.eta, p[5]
            ));
            // what the threshold theorem predicts for a round-to-nearest powf
            if !(p[1] > 0.0 && p[3] > 0.0) {
                s.fail("rate-zero-although-progress-seen", format!("per_sec {} after 4614 s / {} after 4854 s: the weight has not underflowed yet", p[1], p[3]), desc.clone());
            }
            if p[4] != 0.0 || p[5] != 0.0 {
                s.notes.push("powf does not return 0 where the correctly rounded weight is 0 (stall >= 4855 s)".to_string());
            }
        } else {
            s.fail("panic", "underflow corpus case did not produce 6 observations".into(), desc);
        }
    }

    // D11: 60 x 1/s then 2 x 100/s then a stall sampled every 0.5 s
    {
        let mut ops = vec![];
        let mut p = 0;
        for _ in 0..60 { ops.push(Op::Adv(S)); p += 1; ops.push(Op::SetPos(p)); }
        for _ in 0..2 { ops.push(Op::Adv(S)); p += 100; ops.push(Op::SetPos(p)); }
        ops.push(Op::Query);
        for _ in 0..20 { ops.push(Op::Adv(S / 2)); ops.push(Op::Query); }
        ops.push(Op::Adv(5000 * S));
        ops.push(Op::Query);
        ops.push(Op::Adv(5000 * S));
        ops.push(Op::Query);
        emit(&mut s, &mut st, "corpus-D11", Some(100_000), 5 * S, &ops, true, None);
    }
    // the witness of Theorem C09_bar_stall_decay_refuted (props/C09.v), replayed on the real code:
    // over R the rate at the last sample (t = 30 s) is exactly 8199/99 and it is larger 0.5 s later
    {
        let ops = vec![
            Op::Adv(15 * S), Op::UpdPos(15), Op::Adv(15 * S), Op::UpdPos(1515), Op::Query,
            Op::Adv(S / 2), Op::Query, Op::Adv(5 * S), Op::Query, Op::Adv(60 * S), Op::Query,
        ];
        let run = emit(&mut s, &mut st, "corpus-D11-coq-witness", Some(100_000), 0, &ops, true, None);
        let qs: Vec<&QRec> = run.q.iter().filter(|q| q.explicit).collect();
        let desc = "corpus-D11-coq-witness".to_string();
        if qs.len() == 4 {
            let want = 8199.0 / 99.0;
            if ((qs[0].obs.per_sec - want) / want).abs() > REL {
                s.fail("coq-witness-value", format!("per_sec at the last sample = {} but the R-model gives 8199/99 = {want}", qs[0].obs.per_sec), desc.clone());
            }
            if !(qs[1].obs.per_sec > qs[0].obs.per_sec) {
                // the refutation witness no longer fails on the implementation: the finding is stale
                s.notes.push(format!("D11 witness does NOT rise on the implementation any more: {} then {}", qs[0].obs.per_sec, qs[1].obs.per_sec));
            } else {
                s.notes.push(format!("D11 Coq witness replayed on the implementation: per_sec {} at the last sample, {} after 0.5 s of stall (rises, as proved over R)", qs[0].obs.per_sec, qs[1].obs.per_sec));
            }
        } else {
            s.fail("panic", "coq witness did not produce 4 observations".into(), desc);
        }
    }
    // reset-stale-baseline witnesses A and B (fixed by d7a46c1: must pass)
    forget_case(&mut s, &mut st, "corpus-reset-A", Some(1000), 5 * S,
        &[Op::Adv(S), Op::SetPos(100), Op::Adv(S)], Restart::All, &vec![(S, 150, 0)], true);
    forget_case(&mut s, &mut st, "corpus-reset-B", Some(100_000), 5 * S,
        &[Op::Adv(S), Op::SetPos(10), Op::Inc(1000), Op::Adv(S)], Restart::Eta, &vec![(S, 1, 1)], true);
    forget_case(&mut s, &mut st, "corpus-reset-C", Some(100_000), 5 * S,
        &[Op::Adv(S), Op::SetPos(100), Op::Adv(S)], Restart::All, &vec![(S, 50, 0), (S, 50, 0), (2 * S, 7, 2)], true);
    // boundary instants and magnitudes
    emit(&mut s, &mut st, "corpus-creation-instant", Some(100_000), 5 * S,
        &[Op::Query, Op::Adv(1), Op::Query, Op::SetPos(1_000_000_000), Op::Query, Op::Finish, Op::Query], true, None);
    emit(&mut s, &mut st, "corpus-eta-saturation", Some(u64::MAX), 0,
        &[Op::Adv(S), Op::SetPos(1), Op::Query, Op::Adv(4800 * S), Op::Query, Op::Adv(30 * S), Op::Query, Op::Adv(30 * S), Op::Query, Op::Adv(86_400 * S), Op::Query], true, None);
    emit(&mut s, &mut st, "corpus-limiter-burst", Some(1000), 7,
        &(0..14).flat_map(|i| vec![Op::Adv(if i == 0 { MS } else { 50_000 }), Op::Inc(1), Op::Query]).collect::<Vec<_>>(), true, None);
    emit(&mut s, &mut st, "corpus-finished", Some(500), 1 << 40,
        &[Op::Adv(S), Op::SetPos(10), Op::Adv(S), Op::Finish, Op::Query, Op::Adv(3 * S), Op::Query, Op::SetPos(20), Op::Query, Op::ResetAll, Op::Adv(S), Op::UpdPos(5), Op::Query], true, None);
    emit(&mut s, &mut st, "corpus-steady-1e15", Some(u64::MAX), 0,
        &(0..20).flat_map(|i| vec![Op::Adv(S), Op::UpdPos((i + 1) * 1_000_000_000_000_000), Op::Query]).collect::<Vec<_>>(), true, Some(1e15));
    emit(&mut s, &mut st, "corpus-wrap-dec", Some(10), 0,
        &[Op::Adv(S), Op::Inc(3), Op::Adv(S), Op::Dec(5), Op::Query, Op::Adv(S), Op::Inc(1), Op::Query, Op::Adv(S), Op::Inc(5), Op::Query], true, None);

    // the witness of Theorem C09_bar_steady_between_samples_refuted: 15 steps in 15 s (rate 1), queried
    // at the sample (exact) and 15 s later: over R the report is 21/121, NOT the true rate
    {
        let ops = vec![Op::Adv(15 * S), Op::UpdPos(15), Op::Query, Op::Adv(15 * S), Op::Query];
        let run = emit(&mut s, &mut st, "corpus-steady-between-samples-coq-witness", Some(100), 0, &ops, true, Some(1.0));
        let qs: Vec<&QRec> = run.q.iter().filter(|q| q.explicit).collect();
        let desc = "corpus-steady-between-samples-coq-witness".to_string();
        if qs.len() == 2 {
            let want = 21.0 / 121.0;
            if ((qs[1].obs.per_sec - want) / want).abs() > REL || ((qs[0].obs.per_sec - 1.0).abs() > REL) {
                s.fail("coq-witness-value", format!("steady witness: per_sec {} at the sample (R-model: 1), {} 15 s later (R-model: 21/121 = {want})", qs[0].obs.per_sec, qs[1].obs.per_sec), desc);
            } else {
                s.notes.push(format!("steady-rate Coq witness replayed on the implementation: per_sec {} at the sample, {} 15 s later (21/121 over R): exact only at sample instants", qs[0].obs.per_sec, qs[1].obs.per_sec));
            }
        } else {
            s.fail("panic", "steady coq witness did not produce 2 observations".into(), desc);
        }
    }
    // regression witness of fix 56491a5 (Theorems C09_bar_rewind_instant_pre_56491a5 /
    // C09_f64_rewind_instant_nan_pre_56491a5): no reset anywhere; update(set_pos 10) at 1 s;
    // update(set_pos 5) at 2 s; query at 2 s (was NaN, must be 0) and 1 ns later
    {
        let ops = vec![Op::Adv(S), Op::UpdPos(10), Op::Adv(S), Op::UpdPos(5), Op::Query, Op::Adv(1), Op::Query];
        let run = emit(&mut s, &mut st, "corpus-rewind-instant-fixed-56491a5", Some(100), 0, &ops, true, None);
        let qs: Vec<&QRec> = run.q.iter().filter(|q| q.explicit).collect();
        let desc = "corpus-rewind-instant-fixed-56491a5".to_string();
        if qs.len() == 2 {
            if qs[0].obs.per_sec.to_bits() == 0 && qs[0].obs.eta == Some(Duration::ZERO) {
                s.notes.push(format!("fix 56491a5 replayed: per_sec() = 0 (was NaN) at the instant of the recorded backwards seek (2 s after creation, no reset), {} one ns later", qs[1].obs.per_sec));
            } else {
                s.fail("nan-at-backwards-seek-instant", format!("per_sec() = {} eta = {:?} at the instant of the recorded backwards seek; fix 56491a5 makes it +0.0 / 0 s", qs[0].obs.per_sec, qs[0].obs.eta), desc);
            }
        } else {
            s.fail("panic", "rewind-instant witness did not produce 2 observations".into(), desc);
        }
    }

    // ---- random cases
    let mult = if a.thorough { 10 } else if a.extended { 10 } else { 1 };
    let mut k = 0u64;
    let fl = |k: &mut u64| { *k += 1; *k % 12 == 0 };
    for _ in 0..500 * mult {
        let (l, ops) = gen_mixed(&mut r);
        let t0 = t0_of(&mut r);
        emit(&mut s, &mut st, "mixed", l, t0, &ops, fl(&mut k), None);
    }
    for _ in 0..300 * mult {
        let (l, ops, rate) = gen_steady(&mut r);
        let t0 = t0_of(&mut r);
        emit(&mut s, &mut st, "steady", l, t0, &ops, fl(&mut k), Some(rate));
    }
    for _ in 0..150 * mult {
        let (l, ops, rate) = gen_steady_fast(&mut r);
        let t0 = t0_of(&mut r);
        emit(&mut s, &mut st, "steady-fast", l, t0, &ops, fl(&mut k), Some(rate));
    }
    for _ in 0..200 * mult {
        let (l, ops) = gen_stall(&mut r);
        let t0 = t0_of(&mut r);
        emit(&mut s, &mut st, "stall", l, t0, &ops, fl(&mut k), None);
    }
    for _ in 0..200 * mult {
        let (l, prefix, rs, suffix) = gen_forget(&mut r);
        let t0 = t0_of(&mut r);
        forget_case(&mut s, &mut st, "forget", l, t0, &prefix, rs, &suffix, fl(&mut k));
    }
    s.notes.push(format!(
        "steady-rate cases: largest relative deviation |per_sec - r|/r at a sample instant = {:e}; {} readings between / after samples, largest relative deviation from r*(1-((1-w)/(1-A w))^2) = {:e} (tolerance {REL:e})",
        st.max_steady_dev, st.steady_between, st.max_discount_dev
    ));
    s.notes.push(format!(
        "eta vs remaining/per_sec: largest deviation {:.3} ns (eta < 1e6 s; truncation to ns included)",
        st.max_eta_dev_ns
    ));
    s.notes.push(format!(
        "stall windows examined: {}, with a rise: {}, of which with the established cause smoothed > double_smoothed at the last sample (class stall-rise-after-acceleration): {}",
        st.stall_windows, st.stall_rises, st.stall_rises_known
    ));
    s.notes.push(format!(
        "D32 rate-underflow-after-long-stall seen at {} readings; known classes are reported at most {KNOWN_CLASS_REPORT_CAP} times each per run (totals: oracle_failure:<class> in the input distribution)",
        st.underflow_seen
    ));
    set_auto_step_ns(0);
    s.finish();
}
