//! C18 – terminal I/O failures never panic, poison or corrupt logical state.
//!
//! For every generated history: a fault-free run (the twin), then for every k up to the number
//! of TermLike calls of that run (all k in quick mode up to a cap, the rest sampled) two faulty
//! runs on fresh objects: "only call k fails" and "every call from k on fails".  Oracle
//! (independent of the model), per faulty run:
//!   * no public call panics (each under catch_unwind),
//!   * position/length/message/prefix/is_finished after EVERY op equal the fault-free twin's,
//!   * MultiProgress::println / clear return Err iff the recording terminal injected a failure
//!     into one of the calls made during that very call,
//!   * afterwards a final round of getters + tick + println on every bar (same and siblings),
//!     mp.println/clear/suspend and the drops work: no poisoned lock.
//! Static part: every `unwrap()/expect()/panic!/assert!` site of src/{progress_bar,state,multi,
//! draw_target}.rs outside the test modules must be one of the audited sites listed below (none
//! of them consumes an io::Result); a new site is reported (class unaudited-unwrap-site).
//! Correspondence: faulty runs are compared with model/Sys.v (sys_check with c_fail_at /
//! c_fail_from): the model must predict exactly which calls still reach the terminal after a
//! failure, the io results and the later last_line_count (visible through the next draws).
use verif_harness::spy::{Spy, TOp, FAIL_KINDS};
use verif_harness::sysrun::*;
use verif_harness::*;

// static audit of index / arithmetic sites (NOPANIC): harness/src/c18_scan.rs
#[path = "../c18_scan.rs"]
mod c18_scan;

// ------------------------------------------------------------------ static audit of panic sites
/// (file, whitespace-normalised statement text, why it cannot be reached by an I/O failure)
const AUDITED: &[(&str, &str, &str)] = &[
    ("progress_bar.rs", "self.state().state.started = Instant::now().checked_sub(elapsed).unwrap();", "with_elapsed: Instant arithmetic, no I/O"),
    ("progress_bar.rs", "panic!(\"you must acquire the TICKER_TEST lock in your test to use this method\");", "cfg(test) only"),
    ("progress_bar.rs", "debug_assert!(!interval.is_zero());", "ticker interval, no I/O"),
    ("progress_bar.rs", "}) .unwrap();", "Ticker::run: result of Condvar::wait_timeout_while (PoisonError), no I/O"),
    ("state.rs", "debug_assert!(!s.contains('\\t'));", "tab expansion invariant, no I/O"),
    ("multi.rs", "self.internalize(InsertLocation::Before(before.index().unwrap()), pb)", "API misuse: reference bar is not a member"),
    ("multi.rs", "self.internalize(InsertLocation::After(after.index().unwrap()), pb)", "API misuse: reference bar is not a member"),
    ("multi.rs", "assert!(Arc::ptr_eq(&self.state, state));", "API misuse: bar of another MultiProgress"),
    ("multi.rs", "if index != self.ordering.first().copied().unwrap() {", "a member being dropped is in the ordering (structure, fault independent: C18_structure)"),
    ("multi.rs", "let member = self.members.get_mut(idx).unwrap();", "member index handed out by insert (structure, fault independent)"),
    ("multi.rs", "let pos = self.ordering.iter().position(|i| *i == after_idx).unwrap();", "API misuse: reference index not in the ordering"),
    ("multi.rs", "let pos = self.ordering.iter().position(|i| *i == before_idx).unwrap();", "API misuse: reference index not in the ordering"),
    ("multi.rs", "debug_assert_eq!( extra_lines.is_some(), extra_lines.as_ref().map(Vec::len).unwrap_or_default() > 0 );", "println always passes at least one line"),
    ("multi.rs", "assert_eq!( self.len(), self.ordering.len(), \"Draw state is inconsistent\" );", "structure invariant (fault independent)"),
    ("draw_target.rs", "self.prev = now .checked_sub(Duration::from_nanos(remainder as u64)) .unwrap();", "RateLimiter: remainder <= elapsed, Instant arithmetic"),
];

fn is_lock_unwrap(stmt: &str) -> bool {
    // poisoning requires an earlier panic while the guard was held; these are not io::Results
    let t = stmt.replace(' ', "");
    let n = t.matches(".unwrap()").count() + t.matches(".expect(").count();
    let locks = t.matches(".lock().unwrap()").count() + t.matches(".read().unwrap()").count() + t.matches(".write().unwrap()").count();
    n > 0 && n == locks && !t.contains("panic!(") && !t.contains("assert")
}

fn audit_panic_sites(s: &mut Session) {
    let repo = std::env::var("VERIF_REPO").unwrap_or_else(|_| "/repo".into());
    let mut sites = 0;
    for file in ["progress_bar.rs", "state.rs", "multi.rs", "draw_target.rs"] {
        let src = match std::fs::read_to_string(format!("{repo}/src/{file}")) {
            Ok(x) => x,
            Err(e) => {
                s.fail("source-unreadable", format!("{file}: {e}"), format!("static audit of {file}"));
                continue;
            }
        };
        let lines: Vec<&str> = src.lines().collect();
        let end = lines.iter().position(|l| l.starts_with("mod tests") || l.starts_with("mod test ")).unwrap_or(lines.len());
        let code_of = |l: &str| -> String { l.split("//").next().unwrap_or("").trim().to_string() };
        for i in 0..end {
            let code = code_of(lines[i]);
            let hit = [".unwrap()", ".expect(", "panic!(", "unreachable!(", "assert!(", "assert_eq!(", "assert_ne!(", "unimplemented!(", "todo!("]
                .iter()
                .any(|p| code.contains(p));
            if !hit {
                continue;
            }
            sites += 1;
            // the site text: the line itself; a method-chain continuation line (starting with '.')
            // is prefixed with the preceding lines of the chain; an opening macro call is
            // completed up to its closing line
            let mut parts = vec![code.clone()];
            let mut k = i;
            while parts[0].starts_with('.') && k > 0 {
                k -= 1;
                let c = code_of(lines[k]);
                if !c.is_empty() {
                    parts.insert(0, c);
                }
            }
            let mut k = i;
            while parts.last().unwrap().ends_with('(') || (code.ends_with("!(") && !parts.last().unwrap().ends_with(");")) {
                k += 1;
                if k >= end {
                    break;
                }
                let c = code_of(lines[k]);
                if !c.is_empty() {
                    parts.push(c);
                }
            }
            let stmt = parts.join(" ");
            let ok = is_lock_unwrap(&stmt) || AUDITED.iter().any(|(f, t, _)| *f == file && *t == stmt);
            if std::env::var("C18_LIST_SITES").is_ok() {
                println!("SITE {file}:{} {} `{stmt}`", i + 1, if ok { "ok" } else { "UNAUDITED" });
            }
            if !ok {
                s.fail(
                    "unaudited-unwrap-site",
                    format!("src/{file}:{}: `{stmt}` is not one of the audited panic sites (does it consume an io::Result?)", i + 1),
                    format!("static audit of src/{file}:{} `{}`", i + 1, code),
                );
            }
        }
    }
    s.count_n("static_panic_sites_audited", sites);
    s.oracle_only("static audit: unwrap/expect/panic!/assert sites of progress_bar.rs state.rs multi.rs draw_target.rs".into(), true);
}

// ------------------------------------------------------------------ generators
/// terminal sizes of the fault sweep: degenerate widths (0 = a terminal reporting no columns) and
/// heights lower than the frames included
const WIDTHS: [u16; 7] = [0, 1, 2, 3, 7, 20, 80];
const HEIGHTS: [u16; 6] = [1, 2, 3, 5, 10, 30];
fn gen_single(r: &mut Rng) -> Case {
    let w = *r.pick(&WIDTHS);
    let wu = w as usize;
    let bar = BarInit {
        len: if r.chance(1, 4) { None } else { Some(r.below(50)) },
        fin: gen_fin_short(r, wu),
        tmpl: gen_small_tmpl(r, wu, 0),
        target: TInit::Term(*r.pick(&[None, None, Some(20u8)])),
    };
    let mut t = 0;
    let mut ops = vec![];
    for _ in 0..r.range(4, 14) {
        t += gen_gap(r);
        ops.push((
            t,
            match r.below(23) {
                16 => Op::Dec(0, r.below(4)),
                17 => Op::IncLen(0, r.below(9)),
                18 => Op::DecLen(0, r.below(9)),
                19 => Op::UnsetLen(0),
                20 => Op::SetStyle(0, gen_small_tmpl(r, wu, 0)),
                21 => Op::ResetEta(0),
                22 => Op::ResetElapsed(0),
                0..=1 => Op::Tick(0),
                2..=3 => Op::Inc(0, r.below(4)),
                4 => Op::SetPos(0, r.below(60)),
                5 => Op::SetMsg(0, gen_short_text(r, wu)),
                6 => Op::SetLen(0, r.below(60)),
                7..=8 => Op::Println(0, gen_multiline(r, wu)),
                9 => Op::Suspend(0, gen_suspend_lines(r, wu)),
                10 => Op::SetTabWidth(0),
                11 => Op::ForceDraw(0),
                12 => Op::Reset(0),
                13 => Op::Finish(0, gen_fin_short(r, wu)),
                14 => Op::FinishUsingStyle(0),
                _ => Op::SetPrefix(0, gen_short_text(r, wu)),
            },
        ));
    }
    if r.chance(1, 2) {
        ops.push((t + 1, Op::Drop(0)));
    }
    Case { w, h: *r.pick(&HEIGHTS), fail_at: vec![], fail_from: None, mp: TInit::Hidden, bars: vec![bar], ops }
}

fn gen_multi(r: &mut Rng) -> Case {
    let mut cfg = GenCfg::default_multi();
    cfg.max_bars = 3;
    cfg.max_ops = 16;
    cfg.w_log = 30;
    cfg.w_finish = 15;
    cfg.w_struct = 20;
    cfg.hz = *r.pick(&[None, None, Some(20u8)]);
    cfg.widths = WIDTHS.to_vec();
    cfg.heights = HEIGHTS.to_vec();
    let mut c = gen_multi_case(r, &cfg);
    // set_tab_width on a member was one of the D10 sites
    if let Some(b) = c.ops.iter().find_map(|(_, o)| if let Op::Insert(_, b) = o { Some(*b) } else { None }) {
        let t = c.ops.last().map_or(0, |x| x.0);
        if !c.ops.iter().any(|(_, o)| matches!(o, Op::Drop(x) if *x == b)) {
            let at = r.range(1, c.ops.len() as u64) as usize;
            let tt = c.ops[at - 1].0;
            c.ops.insert(at, (tt, Op::SetTabWidth(b)));
            let _ = t;
        }
    }
    sprinkle_rare_ops(r, &mut c);
    c
}

/// ops that sysrun's multi generator never produces (AUDIT3 finding 38), placed on a bar between
/// its add/insert and its drop
fn sprinkle_rare_ops(r: &mut Rng, c: &mut Case) {
    let wu = c.w as usize;
    for _ in 0..r.range(1, 4) {
        let members: Vec<usize> = c.ops.iter().filter_map(|(_, o)| if let Op::Insert(_, b) = o { Some(*b) } else { None }).collect();
        if members.is_empty() {
            return;
        }
        let b = *r.pick(&members);
        let first = c.ops.iter().position(|(_, o)| matches!(o, Op::Insert(_, x) if *x == b)).unwrap();
        let last = c.ops.iter().position(|(_, o)| matches!(o, Op::Drop(x) if *x == b)).unwrap_or(c.ops.len());
        let at = r.range(first as u64 + 1, last as u64) as usize;
        let t = c.ops[at - 1].0;
        let op = match r.below(7) {
            0 => Op::Dec(b, r.below(4)),
            1 => Op::IncLen(b, r.below(9)),
            2 => Op::DecLen(b, r.below(9)),
            3 => Op::UnsetLen(b),
            4 => Op::SetStyle(b, gen_small_tmpl(r, wu, b)),
            5 => Op::ResetEta(b),
            _ => Op::ResetElapsed(b),
        };
        c.ops.insert(at, (t, op));
    }
}

/// Bottom alignment with a shrinking region under faults: three drawn members, two of them
/// removed (the redraws pad the freed rows), then println of the MultiProgress / of a member with
/// at least one bar left - the draw that writes text lines, THEN the padding, then the bar
fn gen_bottom_shrink(r: &mut Rng) -> Case {
    let w = *r.pick(&[7u16, 20, 80]);
    let wu = w as usize;
    let nb = r.range(3, 4) as usize;
    let bars: Vec<BarInit> = (0..nb)
        .map(|i| BarInit {
            len: Some(r.below(30)),
            fin: gen_fin_short(r, wu),
            tmpl: vec![TPart::Lit(((b'A' + i as u8) as char).to_string()), TPart::Pos],
            target: TInit::Hidden,
        })
        .collect();
    let mut t = 0u64;
    let mut ops = vec![];
    let mut push = |ops: &mut Vec<(u64, Op)>, o: Op| {
        t += 1_000_000;
        ops.push((t, o));
    };
    for b in 0..nb {
        push(&mut ops, Op::Insert(Loc::End, b));
    }
    let at = r.below(nb as u64 + 1) as usize;
    ops.insert(at, (0, Op::SetAlign(true)));
    for b in 0..nb {
        push(&mut ops, Op::Tick(b));
    }
    let mut left: Vec<usize> = (0..nb).collect();
    for _ in 0..2 {
        let k = r.below(left.len() as u64) as usize;
        let b = left.remove(k);
        push(&mut ops, if r.chance(1, 3) { Op::Drop(b) } else { Op::Remove(b) });
    }
    push(&mut ops, Op::MPrintln(gen_short_text(r, wu)));
    for _ in 0..r.range(1, 4) {
        let b = *r.pick(&left);
        let o = match r.below(6) {
            0 => Op::Println(b, gen_short_text(r, wu)),
            1 => Op::Inc(b, 1),
            2 => Op::MClear,
            3 => Op::SetMsg(b, gen_short_text(r, wu)),
            _ => Op::MPrintln(gen_multiline(r, wu)),
        };
        push(&mut ops, o);
    }
    Case { w, h: *r.pick(&[5u16, 10, 30]), fail_at: vec![], fail_from: None, mp: TInit::Term(None), bars, ops }
}

/// AUDIT3 finding 1 (part G7): W = 10, H = 2, three members, one kept row, then mp.println whose
/// FIRST terminal call fails (Clear(zombie rows) has pushed the count past the height: the code
/// leaves it capped at H, draw_target.rs:526-529), then drop b, tick c.
fn corpus_g7() -> Case {
    let tm = vec![TPart::Lit("x".into()), TPart::Pos];
    let bars = (0..3).map(|_| BarInit { len: Some(5), fin: Fin::AndLeave, tmpl: tm.clone(), target: TInit::Hidden }).collect();
    let raw = vec![
        Op::Insert(Loc::End, 0),
        Op::Insert(Loc::End, 1),
        Op::Insert(Loc::End, 2),
        Op::Tick(0),
        Op::Tick(1),
        Op::Tick(2),
        Op::Finish(1, Fin::AndLeave),
        Op::Finish(0, Fin::AndLeave),
        Op::Drop(0),
        Op::Tick(2),
        Op::MPrintln("p".into()),
        Op::Drop(1),
        Op::Tick(2),
    ];
    let ops = raw.into_iter().enumerate().map(|(i, o)| ((i as u64 + 1) * 1_000_000, o)).collect();
    Case { w: 10, h: 2, fail_at: vec![], fail_from: None, mp: TInit::Term(None), bars, ops }
}

/// Long stories with a terminal that KEEPS failing (seeded C18-5: a counter that is bumped on
/// every failed draw overflows only after a few hundred failures in a row): rate-limited targets
/// (term_like_with_hz), stand-alone and under a MultiProgress, >= 300 forced draws.
fn persistent_failure_story(r: &mut Rng, multi: bool) -> Case {
    let w = *r.pick(&[7u16, 20]);
    let wu = w as usize;
    let hz = *r.pick(&[1u8, 20, 255]);
    let nb = if multi { 2 } else { 1 };
    let bars: Vec<BarInit> = (0..nb)
        .map(|i| BarInit {
            len: Some(50),
            fin: gen_fin_short(r, wu),
            tmpl: gen_small_tmpl(r, wu, i),
            target: if multi { TInit::Hidden } else { TInit::Term(Some(hz)) },
        })
        .collect();
    let mut t = 0u64;
    let mut ops = vec![];
    if multi {
        for b in 0..nb {
            ops.push((t, Op::Insert(Loc::End, b)));
        }
    }
    let n = r.range(310, 360);
    let mut finished = vec![false; nb];
    for _ in 0..n {
        t += *r.pick(&[0u64, 0, 1, 1000, 60_000_000]);
        let b = r.below(nb as u64) as usize;
        let o = match r.below(8) {
            0..=2 => Op::ForceDraw(b),
            3 => {
                finished[b] = true;
                Op::Finish(b, gen_fin_short(r, wu))
            }
            4 if finished[b] => Op::Tick(b), // a finished bar draws forced
            5 if multi => Op::MPrintln(gen_short_text(r, wu)),
            5 => Op::Println(b, gen_short_text(r, wu)),
            6 => Op::SetTabWidth(b),
            7 if multi => Op::MClear,
            _ => Op::ForceDraw(b),
        };
        ops.push((t, o));
    }
    Case { w, h: 30, fail_at: vec![], fail_from: None, mp: if multi { TInit::Term(Some(hz)) } else { TInit::Hidden }, bars, ops }
}

fn all_getters(r: &Running) -> Vec<Option<Getters>> {
    r.bars
        .iter()
        .map(|b| {
            b.as_ref().map(|pb| Getters {
                pos: pb.position(),
                len: pb.length(),
                finished: pb.is_finished(),
                msg: pb.message(),
                prefix: pb.prefix(),
            })
        })
        .collect()
}

/// drops the handles one at a time, each under its own catch_unwind; after the first panic the
/// remaining objects are leaked (their Drop would panic as well: a double panic aborts)
fn drop_one_by_one(r: Running) -> Result<(), String> {
    let Running { spy: _spy, mp, mut bars } = r;
    for i in 0..bars.len() {
        if let Some(pb) = bars[i].take() {
            if let Err(e) = catch(move || drop(pb)) {
                std::mem::forget(bars);
                std::mem::forget(mp);
                return Err(e);
            }
        }
    }
    catch(move || drop(mp))
}

struct FaultRun {
    obs: Vec<StepObs>,
    /// call numbers at which a failure was injected during the history proper
    injected_at: Vec<u64>,
    /// (class, detail) of the first oracle violation
    bad: Option<(String, String)>,
    injected: u64,
}

/// one faulty run on fresh objects, checked against the fault-free twin `twin`
fn run_faulty(case: &Case, twin: &[StepObs], kind: std::io::ErrorKind, fail_flush: bool) -> FaultRun {
    let mut r = start(case);
    {
        let mut sp = r.spy.0.lock().unwrap();
        sp.fail_kind = kind;
        sp.fail_flush = fail_flush;
    }
    let mut obs = vec![];
    let mut bad: Option<(String, String)> = None;
    let inj = |r: &Running| r.spy.0.lock().unwrap().failures_injected;
    for (k, (t, op)) in case.ops.iter().enumerate() {
        let before = inj(&r);
        let res = apply(&mut r, *t, op);
        let emitted = r.spy.take();
        let delta = inj(&r) - before;
        match res {
            Err(e) => {
                bad = Some((format!("io-fault-panic:{}", op.name()), format!("op {k} {:?} panicked: {e}", op)));
                obs.push(StepObs { emitted, ok: false, getters: vec![], panic: Some(e) });
                break;
            }
            Ok(ok) => {
                let g = match catch(|| all_getters(&r)) {
                    Ok(g) => g,
                    Err(e) => {
                        bad = Some(("io-fault-poisoned-getter".into(), format!("getter panicked after op {k} {:?}: {e}", op)));
                        obs.push(StepObs { emitted, ok, getters: vec![], panic: Some(e) });
                        break;
                    }
                };
                if bad.is_none() {
                    if let Some(tw) = twin.get(k) {
                        if tw.getters != g {
                            bad = Some((
                                "io-fault-state-differs".into(),
                                format!("after op {k} {:?}: {:?} but the fault-free run has {:?}", op, g, tw.getters),
                            ));
                        }
                    }
                    let reporting = matches!(op, Op::MPrintln(_) | Op::MClear);
                    if reporting && ok && delta > 0 {
                        bad = Some(("io-error-not-reported".into(), format!("op {k} {:?} returned Ok although {delta} of its terminal calls failed", op)));
                    }
                    if reporting && !ok && delta == 0 {
                        bad = Some(("io-error-spurious".into(), format!("op {k} {:?} returned Err although none of its terminal calls failed", op)));
                    }
                }
                obs.push(StepObs { emitted, ok, getters: g, panic: None });
            }
        }
    }
    let injected_at = r.spy.0.lock().unwrap().injected_at.clone();
    if bad.is_none() {
        // final round: the same and sibling bars, the MultiProgress, then the drops
        let spy = r.spy.clone();
        let round = catch(|| {
            for pb in r.bars.iter().flatten() {
                let _ = (pb.position(), pb.length(), pb.message(), pb.prefix(), pb.is_finished(), pb.is_hidden());
                pb.tick();
                pb.println("final round");
                pb.set_tab_width(4);
                pb.suspend(|| {
                    let _ = indicatif::TermLike::write_line(&spy, "w");
                });
                pb.set_message("m");
            }
            let _ = r.mp.println("mp final round");
            let _ = r.mp.clear();
            r.mp.suspend(|| {});
            let _ = r.mp.is_hidden();
        });
        if let Err(e) = round {
            bad = Some(("io-fault-poisoned".into(), format!("the final round of calls after the history panicked: {e}")));
        }
    }
    let injected = inj(&r);
    if bad.as_ref().map_or(false, |(c, _)| c.contains("panic") || c.contains("poison")) {
        // a panic inside indicatif may have poisoned a lock: every further Drop would panic, and a
        // second panic while the first one unwinds aborts the process - leak the objects instead
        std::mem::forget(r);
    } else if let Err(e) = drop_one_by_one(r) {
        bad = Some(("io-fault-panic:drop".into(), format!("dropping the objects after the history panicked: {e}")));
    }
    FaultRun { obs, injected_at, bad, injected }
}

// ------------------------------------------------------------------ steady ticker vs a terminal that fails for a while
/// waits (real time) until `f` holds; `ms` nominal, tripled before giving up (a loaded machine must
/// not produce a false alarm - a dead ticker stays dead however long one waits)
fn wait_for(ms: u64, mut f: impl FnMut() -> bool) -> bool {
    let t0 = std::time::Instant::now();
    while t0.elapsed() < std::time::Duration::from_millis(3 * ms) {
        if f() {
            return true;
        }
        std::thread::sleep(std::time::Duration::from_millis(1));
    }
    f()
}

/// A bar (standalone or member of a MultiProgress) with enable_steady_tick on a terminal that
/// fails every call during a window and then recovers.  Not expressible in Sys.v (no ticker in
/// the model): oracle only.  "later calls keep working": after the recovery frames arrive again
/// without any manual call, and a position change made then is eventually painted.
fn ticker_scenarios(s: &mut Session, r: &mut Rng, n: usize) {
    use indicatif::verif_clock as vc;
    use indicatif::{MultiProgress, ProgressBar, ProgressDrawTarget};
    for i in 0..n {
        let interval = r.range(2, 10);
        let member = i % 3 == 2;
        let kind = FAIL_KINDS[i % FAIL_KINDS.len()];
        let fail_ticks = r.range(1, 4); // failed ticks inside the window
        let desc = format!(
            "ticker scenario #{i}: {} bar, enable_steady_tick({interval} ms), terminal fails every call (kind {:?}) for >= {fail_ticks} tick(s), then recovers; then inc(1)",
            if member { "MultiProgress member" } else { "standalone" },
            kind
        );
        vc::set_clock_ns(vc::ORIGIN_NS);
        vc::set_auto_step_ns(1_000_000);
        let spy = Spy::new(40, 20);
        spy.0.lock().unwrap().fail_kind = kind;
        let flushes = |spy: &Spy| spy.0.lock().unwrap().ops.iter().filter(|o| **o == TOp::Flush).count();
        let spy2 = spy.clone();
        let res = catch(move || -> Option<(&'static str, String)> {
            let spy = spy2;
            let mp = MultiProgress::with_draw_target(ProgressDrawTarget::term_like(Box::new(spy.clone())));
            let pb = if member {
                mp.add(ProgressBar::with_draw_target(Some(100), ProgressDrawTarget::hidden()))
            } else {
                ProgressBar::with_draw_target(Some(100), ProgressDrawTarget::term_like(Box::new(spy.clone())))
            };
            pb.set_style(style_of(&[TPart::Lit("P".into()), TPart::Pos, TPart::Lit("E".into())]));
            pb.enable_steady_tick(std::time::Duration::from_millis(interval));
            if !wait_for(500, || flushes(&spy) >= 2) {
                return Some(("ticker-never-drew", "no frame arrived within the waiting time after enable_steady_tick".into()));
            }
            // the window: every call fails
            {
                let mut st = spy.0.lock().unwrap();
                st.fail_from = Some(st.calls);
            }
            let inj0 = spy.0.lock().unwrap().failures_injected;
            let seen = wait_for(500, || spy.0.lock().unwrap().failures_injected >= inj0 + fail_ticks);
            // recovery
            {
                let mut st = spy.0.lock().unwrap();
                st.fail_from = None;
                st.ops.clear();
            }
            if !seen && spy.0.lock().unwrap().failures_injected == inj0 {
                return Some(("ticker-never-drew", "the ticker made no call during the failure window".into()));
            }
            // (fewer failed ticks than waited for: the thread may already be gone - the checks below tell)
            if !wait_for(500, || flushes(&spy) >= 1) {
                return Some((
                    "ticker-dead-after-io-error",
                    "after the terminal recovered no frame arrived any more without a manual call: the steady tick thread is gone".into(),
                ));
            }
            pb.inc(1);
            let want = "P1E".to_string();
            if !wait_for(500, || spy.0.lock().unwrap().ops.iter().any(|o| matches!(o, TOp::Str(t) if *t == want))) {
                return Some((
                    "ticker-dead-after-io-error",
                    "after the terminal recovered inc(1) was never painted (position() = 1, no frame with P1E)".into(),
                ));
            }
            if pb.position() != 1 {
                return Some(("io-fault-state-differs", format!("position() = {} after inc(1)", pb.position())));
            }
            pb.finish_and_clear();
            drop(pb);
            drop(mp);
            None
        });
        vc::set_auto_step_ns(0);
        match res {
            Err(e) => s.fail("io-fault-panic:ticker", e, desc.clone()),
            Ok(Some((class, detail))) => s.fail(class, detail, desc.clone()),
            Ok(None) => {}
        }
        s.count("ticker_scenarios");
        s.oracle_only(desc, true);
    }
}

// ------------------------------------------------------------------ witnesses of the no-panic theorems (props/C18.v)
/// D31 (fixed by /repo f8fa07f): on a zero-width terminal the zombie scan of MultiState::draw used
/// to overflow (`adjust += line_count`, src/multi.rs:324; now `saturating_add`).  The witness
/// history is replayed on every run and must NOT panic; if the overflow reappears it is reported
/// as a failure of class `zero-width-zombie-scan-add-overflow` (regression).
fn np_case(w: u16, h: u16, ops: Vec<(u64, Op)>) -> Case {
    let bar = BarInit { len: Some(10), fin: Fin::AndLeave, tmpl: vec![TPart::Lit("x".into()), TPart::Pos], target: TInit::Hidden };
    Case { w, h, fail_at: vec![], fail_from: None, mp: TInit::Term(None), bars: vec![bar.clone(), bar.clone(), bar.clone(), bar], ops }
}

/// Replays the witnesses of C18_zero_width_overflow_regression, C18_misuse_yields_site and
/// C18_no_panic_nonvacuous (coq/model/SysPanic.v: np_ops, np_ops2) on the implementation: the
/// model's [step_panics] verdict must be what the real code does.
fn replay_nopanic_witnesses(s: &mut Session) {
    use Op::*;
    // np_ops ++ [tick d]
    let mut ops: Vec<(u64, Op)> = vec![
        (0, Insert(Loc::End, 0)), (0, Insert(Loc::End, 1)), (0, Insert(Loc::End, 2)), (0, Insert(Loc::End, 3)),
        (1, Tick(0)), (1, Tick(1)), (1, Tick(2)), (1, Tick(3)),
        (2, Finish(1, Fin::AndLeave)), (2, Finish(2, Fin::AndLeave)), (3, Drop(1)), (3, Drop(2)),
        (4, Finish(0, Fin::AndLeave)), (5, Drop(0)),
    ];
    ops.push((6, Tick(3)));
    for w in [0u16, 1] {
        let case = np_case(w, 10, ops.clone());
        let obs = run_case(&case);
        let desc = format!("no-panic witness np_ops + tick (SysPanic.v) {}", describe(&case));
        let p = obs.iter().enumerate().find_map(|(i, o)| o.panic.clone().map(|m| (i, m)));
        match (w, p) {
            (0, Some((i, m))) if m.contains("overflow") => s.fail(
                "zero-width-zombie-scan-add-overflow",
                format!("op {i} panicked on a zero-width terminal: {m} (model of the current code: step_panics = None; the guards of the code before f8fa07f: Some P_draw_adjust_add at op 14)"),
                desc.clone(),
            ),
            (_, Some((i, m))) => s.fail("panic", format!("op {i}: {m} (model: no site reachable here)"), desc.clone()),
            (0, None) => s.count("witness:np_ops-at-width-0:no-panic"),
            (_, None) => s.count("witness:np_ops-at-width-1:no-panic"),
        }
        s.oracle_only(desc, true);
    }
    // misuse: the reference bar (2) was never added; model: Some P_insert_after_index_unwrap /
    // Some P_insert_before_index_unwrap (also when the bar to insert is a member already)
    for (name, op) in [("insert_after", Insert(Loc::After(2), 1)), ("insert_before", Insert(Loc::Before(2), 0))] {
        let case = np_case(5, 10, vec![(0, Insert(Loc::End, 0)), (1, op)]);
        let obs = run_case(&case);
        let desc = format!("misuse witness {name} (SysPanic.v misuse_site) {}", describe(&case));
        match obs.get(1).and_then(|o| o.panic.clone()) {
            Some(m) if m.contains("unwrap") && m.contains("None") => s.count(&format!("witness:misuse-{name}:panics-at-index-unwrap")),
            Some(m) => s.fail("misuse-other-site", format!("{name} relative to a non-member panicked with: {m} (model: index().unwrap())"), desc.clone()),
            None => s.fail("misuse-did-not-panic", format!("{name} relative to a non-member returned (model: panics at index().unwrap())"), desc.clone()),
        }
        s.oracle_only(desc, true);
    }
    // np_ops2 under np_fails2 on a 7x4 terminal: no site is reached (C18_no_panic_nonvacuous)
    let ops2: Vec<(u64, Op)> = vec![
        (0, Insert(Loc::End, 0)), (0, Insert(Loc::After(0), 1)), (0, Insert(Loc::Before(0), 2)), (0, Insert(Loc::FromBack(1), 3)),
        (0, Insert(Loc::End, 1)), (1, SetAlign(true)), (1, Tick(0)), (1, Inc(1, 3)), (1, SetMsg(2, "m".into())), (2, Println(3, "h\ni".into())),
        (3, Suspend(1, vec!["A".into()])), (4, MSuspend(vec!["B".into(), "C".into()])), (5, Remove(3)), (6, MPrintln("p".into())),
        (7, Finish(0, Fin::AndLeave)), (7, Drop(0)), (8, Drop(2)), (9, MClear), (10, Tick(1)), (11, Finish(1, Fin::AndClear)), (12, Drop(1)),
    ];
    {
        let mut c0 = np_case(0, 4, ops2.clone());
        c0.fail_at = vec![7, 30, 31, 32, 33, 34, 35, 36, 37, 38, 39];
        let obs0 = run_case(&c0);
        let d0 = format!("no-panic witness np_ops2 / np_fails2 on a ZERO-WIDTH terminal (SysPanic.v) {}", describe(&c0));
        match obs0.iter().enumerate().find_map(|(i, o)| o.panic.clone().map(|m| (i, m))) {
            Some((i, m)) if m.contains("overflow") => s.fail("zero-width-arith-overflow", format!("op {i}: {m} (model: run_panics 0 4 = None)"), d0.clone()),
            Some((i, m)) => s.fail("panic", format!("op {i}: {m} (model: run_panics 0 4 = None)"), d0.clone()),
            None => s.count("witness:np_ops2-at-width-0:no-panic"),
        }
        s.oracle_only(d0, true);
    }
    let mut case = np_case(7, 4, ops2);
    case.fail_at = vec![7, 30, 31, 32, 33, 34, 35, 36, 37, 38, 39];
    let obs = run_case(&case);
    let desc = format!("no-panic witness np_ops2 / np_fails2 (SysPanic.v) {}", describe(&case));
    if let Some((i, m)) = obs.iter().enumerate().find_map(|(i, o)| o.panic.clone().map(|m| (i, m))) {
        s.fail("panic", format!("op {i}: {m} (model: run_panics = None)"), desc.clone());
        s.oracle_only(desc, true);
    } else {
        s.count("witness:np_ops2:no-panic");
        s.case(coq_case(&case, &obs), desc, true);
    }
}

fn main() {
    let a = args();
    let mut s = Session::new(&a, "C18", COQ_HEADER, COQ_CASE_TY, COQ_CHECKER);
    s.shard_size = 150;
    s.rule = "terminal widths 0/1/2/3/7/20/80 x heights 1/2/3/5/10/30 (histogram W:/H: in the distribution); histories (single bar on a terminal incl. println/suspend/set_tab_width/finish/drop; MultiProgress histories with add/insert/remove, println/suspend/clear of bars and of the MultiProgress, finishes and drops); for each history the fault-free run, then for EVERY k below its number of TermLike calls (sampled above the cap) the runs 'only call k fails' and 'all calls from k on fail' on fresh objects; oracle: no panic, getters equal the fault-free twin after every op, mp.println/clear Err iff one of their own calls failed, final round of calls on every bar and the MultiProgress works, drops do not panic; per history 12 of the faulty runs, drawn UNIFORMLY from all k of the sweep and both modes (one-shot fail_at / sticky fail_from), are compared with the model (sys_check; histograms compared_first_k:/compared_mode: in the distribution), the corpus case of AUDIT3 finding 1 (G7: failed println with the count above the height) with every k in both modes; one history in ten is a Bottom-alignment shrink story (3 drawn members, 2 removed, then println with a bar left); 8 persistent-failure stories (rate-limited targets, >= 300 forced draws, every call from k on fails); the injected io::ErrorKind rotates through Interrupted/WouldBlock/BrokenPipe/Other/TimedOut/UnexpectedEof (recorded in the case text); per history and kind one run in which EVERY flush fails (>= 3 consecutive failing flushes); 36 real-time steady-ticker scenarios (terminal fails for a window, then recovers: frames must arrive again and a later inc must be painted); non-trivial = at least one failure was injected; distinct = distinct case text; plus the static audit of unwrap/expect/panic sites".into();
    audit_panic_sites(&mut s);
    // static findings are reported and the dynamic part still runs (it may add a concrete failing
    // input); objects are never dropped in bulk after a panic was seen (see drop_one_by_one)
    let _static_findings = c18_scan::audit_index_arith_sites(&mut s);
    replay_nopanic_witnesses(&mut s);
    let mut r = Rng::new(a.seed);
    ticker_scenarios(&mut s, &mut r.fork(), if a.thorough { 120 } else { 36 });
    let (n_hist, cap_k, corr_per_hist) = if a.thorough { (700, 400, 14) } else if a.extended { (500, 200, 10) } else { (110, 120, 12) };
    // ---- long persistent-failure stories (every call from k on fails, >= 300 forced draws)
    for j in 0..(if a.thorough { 24 } else { 8 }) {
        let case = persistent_failure_story(&mut r, j % 2 == 1);
        let twin = run_case(&case);
        let forced = case.ops.iter().filter(|(_, o)| matches!(o, Op::ForceDraw(_) | Op::Finish(..) | Op::MPrintln(_) | Op::Println(..) | Op::SetTabWidth(_) | Op::MClear)).count();
        s.count_n("persistent_failure_stories:forced_draw_ops", forced as u64);
        let total: u64 = twin.iter().map(|o| o.emitted.len() as u64).sum();
        for from in [0u64, r.range(1, total.max(2) - 1)] {
            let mut c = case.clone();
            c.fail_from = Some(from);
            let kind = FAIL_KINDS[(j + from as usize) % FAIL_KINDS.len()];
            let fr = run_faulty(&c, &twin, kind, false);
            s.count("faulty_runs:persistent_failure_story");
            s.count_n("failures_injected", fr.injected);
            let desc = format!("kind={:?} persistent-failure story ({} forced draws) {}", kind, forced, describe(&c));
            if let Some((class, detail)) = fr.bad {
                s.fail(&class, format!("[error kind {:?}] {detail}", kind), desc.clone());
            }
            if from == 0 {
                s.case(coq_case(&c, &fr.obs), desc, fr.injected > 0);
            } else {
                s.oracle_only(desc, fr.injected > 0);
            }
        }
    }
    let corpus = vec![corpus_g7()];
    for i in 0..(n_hist + corpus.len()) {
        let is_corpus = i < corpus.len();
        let case = if is_corpus {
            corpus[i].clone()
        } else if i % 10 == 9 {
            gen_bottom_shrink(&mut r)
        } else if i % 2 == 0 {
            gen_single(&mut r)
        } else {
            gen_multi(&mut r)
        };
        if i % 10 == 9 && !is_corpus {
            s.count("histories:bottom-alignment-shrink");
        }
        let twin = run_case(&case);
        if i % 10 == 9 && std::env::var("C18_DEBUG_BOTTOM").is_ok() {
            println!("BOTTOM {}", describe(&case));
            for ((_, op), o) in case.ops.iter().zip(twin.iter()) {
                println!("   {:?} -> {:?}", op, o.emitted);
            }
        }
        if let Some(p) = twin.iter().find_map(|o| o.panic.clone()) {
            s.fail("panic", format!("fault-free run: {p}"), describe(&case));
            continue;
        }
        let total: u64 = twin.iter().map(|o| o.emitted.len() as u64).sum();
        s.count_n("termlike_calls_fault_free", total);
        for (_, o) in &case.ops {
            s.count(&format!("op:{}", o.name()));
        }
        s.count(&format!("W:{}", case.w));
        s.count(&format!("H:{}", case.h));
        s.count(&format!("bars:{}", case.bars.len()));
        // W = 0 is outside the domain of model/Sys.v (Text.v: wrapped_height divides by the width;
        // the code computes ceil(cols / 0.0) = usize::MAX rows per non-empty line): such runs are
        // evaluated by the oracle only (no panic, state, reporting, poisoning)
        let in_model = case.w >= 1;
        if in_model {
            s.case(coq_case(&case, &twin), describe(&case), false);
        } else {
            s.oracle_only(describe(&case), false);
        }
        // every k (capped), both fault modes
        let mut ks: Vec<u64> = (0..total.min(cap_k)).collect();
        for _ in 0..((total.saturating_sub(cap_k)).min(40)) {
            ks.push(r.range(cap_k, total - 1));
        }
        // every flush() of the history fails, once per error kind (>= 3 consecutive failing
        // flushes whenever the history draws three times); replayable as fail_at = the call numbers
        for (j, kind) in FAIL_KINDS.iter().enumerate() {
            let fr = run_faulty(&case, &twin, *kind, true);
            s.count("faulty_runs:every_flush_fails");
            s.count(&format!("error_kind:{:?}", kind));
            s.count_n("failures_injected", fr.injected);
            let mut c = case.clone();
            c.fail_at = fr.injected_at.clone();
            let desc = format!("kind={:?} every-flush-fails {}", kind, describe(&c));
            if let Some((class, detail)) = fr.bad {
                s.fail(&class, format!("[error kind {:?}] {detail}", kind), desc.clone());
            }
            if j == i % 6 && in_model {
                s.count("compared_mode:every_flush_fails");
                s.case(coq_case(&c, &fr.obs), desc, fr.injected > 0);
            } else {
                s.oracle_only(desc, fr.injected > 0);
            }
        }
        // which (k, mode) runs are COMPARED WITH THE MODEL: drawn uniformly from all k of the sweep
        // and both modes (one-shot / sticky); for a corpus case all of them
        let pairs = ks.len() * 2;
        let want = if is_corpus { pairs } else { corr_per_hist.min(pairs) };
        let mut compared = std::collections::HashSet::new();
        while compared.len() < want {
            compared.insert((r.below(ks.len() as u64) as usize, r.below(2) as usize));
        }
        let mut run_no = i;
        for (ki, &k) in ks.iter().enumerate() {
            for mode in 0..2 {
                let mut c = case.clone();
                if mode == 0 {
                    c.fail_at = vec![k];
                    if !is_corpus && r.chance(1, 4) {
                        c.fail_at.push(k + r.range(1, 9)); // a second, later failure
                    }
                } else {
                    c.fail_from = Some(k);
                }
                run_no += 1;
                let kind = FAIL_KINDS[run_no % FAIL_KINDS.len()];
                let fr = run_faulty(&c, &twin, kind, false);
                s.count(if mode == 0 { "faulty_runs:fail_at" } else { "faulty_runs:fail_from" });
                s.count(&format!("error_kind:{:?}", kind));
                s.count_n("failures_injected", fr.injected);
                let desc = format!("kind={:?} {}{}", kind, if is_corpus { "corpus " } else { "" }, describe(&c));
                if let Some((class, detail)) = fr.bad {
                    s.fail(&class, format!("[error kind {:?}] {detail}", kind), desc.clone());
                }
                let rep = fr.obs.iter().zip(c.ops.iter()).filter(|(o, (_, op))| !o.ok && matches!(op, Op::MPrintln(_) | Op::MClear)).count();
                s.count_n("io_errors_reported", rep as u64);
                if in_model && compared.contains(&(ki, mode)) {
                    s.count(&format!("compared_first_k:{:03}-{:03}", k / 20 * 20, k / 20 * 20 + 19));
                    s.count(if mode == 0 { "compared_mode:one_shot(fail_at)" } else { "compared_mode:sticky(fail_from)" });
                    s.case(coq_case(&c, &fr.obs), desc, fr.injected > 0);
                } else {
                    s.oracle_only(desc, fr.injected > 0);
                }
            }
        }
        let _ = TOp::Flush;
    }
    s.finish();
}
