//! C18 – terminal I/O failures never panic, poison or corrupt logical state.
//!
//! For every generated history: a fault-free run (the twin), then for every k up to the number
//! of TermLike calls of that run (all k in quick mode up to a cap, the rest sampled) two faulty
//! runs on fresh objects: "only call k fails" and "every call from k on fails".  Oracle
//! (independent of the model), per faulty run:
//!   * no public call panics (each under catch_unwind),
//!   * position/length/message/prefix/is_finished after EVERY op equal the fault-free twin's,
//!   * MultiProgress::println / clear return Err iff the recording terminal injected a failure
//!     into one of the calls made during that very call,
//!   * afterwards a final round of getters + tick + println on every bar (same and siblings),
//!     mp.println/clear/suspend and the drops work: no poisoned lock.
//! Static part: every `unwrap()/expect()/panic!/assert!` site of src/{progress_bar,state,multi,
//! draw_target}.rs outside the test modules must be one of the audited sites listed below (none
//! of them consumes an io::Result); a new site is reported (class unaudited-unwrap-site).
//! Correspondence: faulty runs are compared with model/Sys.v (sys_check with c_fail_at /
//! c_fail_from): the model must predict exactly which calls still reach the terminal after a
//! failure, the io results and the later last_line_count (visible through the next draws).
use verif_harness::spy::{Spy, TOp, FAIL_KINDS};
use verif_harness::sysrun::*;
use verif_harness::*;

// ------------------------------------------------------------------ static audit of panic sites
/// (file, whitespace-normalised statement text, why it cannot be reached by an I/O failure)
const AUDITED: &[(&str, &str, &str)] = &[
    ("progress_bar.rs", "self.state().state.started = Instant::now().checked_sub(elapsed).unwrap();", "with_elapsed: Instant arithmetic, no I/O"),
    ("progress_bar.rs", "panic!(\"you must acquire the TICKER_TEST lock in your test to use this method\");", "cfg(test) only"),
    ("progress_bar.rs", "debug_assert!(!interval.is_zero());", "ticker interval, no I/O"),
    ("progress_bar.rs", "}) .unwrap();", "Ticker::run: result of Condvar::wait_timeout_while (PoisonError), no I/O"),
    ("state.rs", "debug_assert!(!s.contains('\\t'));", "tab expansion invariant, no I/O"),
    ("multi.rs", "self.internalize(InsertLocation::Before(before.index().unwrap()), pb)", "API misuse: reference bar is not a member"),
    ("multi.rs", "self.internalize(InsertLocation::After(after.index().unwrap()), pb)", "API misuse: reference bar is not a member"),
    ("multi.rs", "assert!(Arc::ptr_eq(&self.state, state));", "API misuse: bar of another MultiProgress"),
    ("multi.rs", "if index != self.ordering.first().copied().unwrap() {", "a member being dropped is in the ordering (structure, fault independent: C18_structure)"),
    ("multi.rs", "let member = self.members.get_mut(idx).unwrap();", "member index handed out by insert (structure, fault independent)"),
    ("multi.rs", "let pos = self.ordering.iter().position(|i| *i == after_idx).unwrap();", "API misuse: reference index not in the ordering"),
    ("multi.rs", "let pos = self.ordering.iter().position(|i| *i == before_idx).unwrap();", "API misuse: reference index not in the ordering"),
    ("multi.rs", "debug_assert_eq!( extra_lines.is_some(), extra_lines.as_ref().map(Vec::len).unwrap_or_default() > 0 );", "println always passes at least one line"),
    ("multi.rs", "assert_eq!( self.len(), self.ordering.len(), \"Draw state is inconsistent\" );", "structure invariant (fault independent)"),
    ("draw_target.rs", "self.prev = now .checked_sub(Duration::from_nanos(remainder as u64)) .unwrap();", "RateLimiter: remainder <= elapsed, Instant arithmetic"),
];

fn is_lock_unwrap(stmt: &str) -> bool {
    // poisoning requires an earlier panic while the guard was held; these are not io::Results
    let t = stmt.replace(' ', "");
    let n = t.matches(".unwrap()").count() + t.matches(".expect(").count();
    let locks = t.matches(".lock().unwrap()").count() + t.matches(".read().unwrap()").count() + t.matches(".write().unwrap()").count();
    n > 0 && n == locks && !t.contains("panic!(") && !t.contains("assert")
}

fn audit_panic_sites(s: &mut Session) {
    let repo = std::env::var("VERIF_REPO").unwrap_or_else(|_| "/repo".into());
    let mut sites = 0;
    for file in ["progress_bar.rs", "state.rs", "multi.rs", "draw_target.rs"] {
        let src = match std::fs::read_to_string(format!("{repo}/src/{file}")) {
            Ok(x) => x,
            Err(e) => {
                s.fail("source-unreadable", format!("{file}: {e}"), format!("static audit of {file}"));
                continue;
            }
        };
        let lines: Vec<&str> = src.lines().collect();
        let end = lines.iter().position(|l| l.starts_with("mod tests") || l.starts_with("mod test ")).unwrap_or(lines.len());
        let code_of = |l: &str| -> String { l.split("//").next().unwrap_or("").trim().to_string() };
        for i in 0..end {
            let code = code_of(lines[i]);
            let hit = [".unwrap()", ".expect(", "panic!(", "unreachable!(", "assert!(", "assert_eq!(", "assert_ne!(", "unimplemented!(", "todo!("]
                .iter()
                .any(|p| code.contains(p));
            if !hit {
                continue;
            }
            sites += 1;
            // the site text: the line itself; a method-chain continuation line (starting with '.')
            // is prefixed with the preceding lines of the chain; an opening macro call is
            // completed up to its closing line
            let mut parts = vec![code.clone()];
            let mut k = i;
            while parts[0].starts_with('.') && k > 0 {
                k -= 1;
                let c = code_of(lines[k]);
                if !c.is_empty() {
                    parts.insert(0, c);
                }
            }
            let mut k = i;
            while parts.last().unwrap().ends_with('(') || (code.ends_with("!(") && !parts.last().unwrap().ends_with(");")) {
                k += 1;
                if k >= end {
                    break;
                }
                let c = code_of(lines[k]);
                if !c.is_empty() {
                    parts.push(c);
                }
            }
            let stmt = parts.join(" ");
            let ok = is_lock_unwrap(&stmt) || AUDITED.iter().any(|(f, t, _)| *f == file && *t == stmt);
            if std::env::var("C18_LIST_SITES").is_ok() {
                println!("SITE {file}:{} {} `{stmt}`", i + 1, if ok { "ok" } else { "UNAUDITED" });
            }
            if !ok {
                s.fail(
                    "unaudited-unwrap-site",
                    format!("src/{file}:{}: `{stmt}` is not one of the audited panic sites (does it consume an io::Result?)", i + 1),
                    format!("static audit of src/{file}:{} `{}`", i + 1, code),
                );
            }
        }
    }
    s.count_n("static_panic_sites_audited", sites);
    s.oracle_only("static audit: unwrap/expect/panic!/assert sites of progress_bar.rs state.rs multi.rs draw_target.rs".into(), true);
}

// ------------------------------------------------------------------ static audit of index / arithmetic sites
/// The function bodies coq/model/SysPanic.v transcribes (second audit m8: the `psite` inventory is
/// manual; this scan makes a NEW slice/Vec index or unchecked `+`/`-` in those bodies visible).
const MODELLED_FNS: &[(&str, &[&str])] = &[
    ("multi.rs", &["insert_before", "insert_after", "remove", "internalize", "println", "suspend", "clear", "mark_zombie", "draw", "draw_state", "insert", "remove_idx", "len", "width"]),
    ("state.rs", &["finish_using_style", "tick", "update_estimate_and_draw", "println", "suspend", "draw", "drop"]),
    ("draw_target.rs", &["width", "mark_zombie", "drawable", "disconnect", "remote", "adjust_last_line_count", "last_line_count", "state", "clear", "draw", "drop", "draw_to_term", "reset", "visual_line_count", "saturating_add", "saturating_sub", "as_usize", "add", "add_assign", "sub", "from", "wrapped_height", "console_width"]),
];

/// (file, whitespace-normalised code line, verdict): every line of a modelled body that indexes a
/// Vec/slice or uses an unchecked `+`, `-`, `+=`, `-=`; the verdict names the `psite` constructor
/// of SysPanic.v or says why the operation is total
const AUDITED_IDX_ARITH: &[(&str, &str, &str)] = &[
    ("multi.rs", "let member = &mut self.members[index];", "psite P_mark_members_index"),
    ("multi.rs", "let member = &self.members[index];", "psite P_draw_scan_index"),
    ("multi.rs", "let member = &self.members[*index];", "psite P_draw_compose_index"),
    ("multi.rs", "draw_state.lines.extend_from_slice(&state.lines[..]);", "total: full range"),
    ("multi.rs", "self.members[idx] = MultiStateMember::default();", "psite P_insert_free_index (insert) / P_remove_members_index (remove_idx)"),
    ("multi.rs", "self.members.len() - 1", "total: right after a push"),
    ("multi.rs", "self.ordering.insert(pos + 1, idx);", "total: pos < len from position(); Vec::insert panics only above len"),
    ("multi.rs", "self.members.len() - self.free_set.len()", "psite P_len_sub"),
    ("draw_target.rs", "if i + 1 != n {", "total: i < n"),
    ("draw_target.rs", "MultiProgressAlignment::Bottom if full_height < *bar_count => *bar_count - full_height,", "psite P_dt_shift_sub"),
    ("draw_target.rs", "for _ in 0..shift.as_usize() - usize::from(full_screen_padding) {", "psite P_dt_pad_sub (fix 881c313)"),
    ("draw_target.rs", "real_height += line_height;", "psite P_dt_real_add"),
    ("draw_target.rs", "if idx + 1 == self.lines.len() || (idx == 0 && line.console_width() == 0) {", "total: idx < lines.len()"),
    ("draw_target.rs", "*bar_count = real_height + shift;", "psite P_dt_count_add"),
    ("draw_target.rs", "visual_line_count(&self.lines[range], width)", "total: only ever called with the full range `..`"),
    ("draw_target.rs", "Self(self.0 + rhs.0)", "the Add impl behind P_dt_count_add"),
    ("draw_target.rs", "self.0 += rhs.0;", "the AddAssign impl behind P_dt_real_add (and, before fix f8fa07f, P_draw_adjust_add)"),
    ("draw_target.rs", "Self(self.0 - rhs.0)", "the Sub impl behind P_dt_shift_sub"),
];

fn strip_strings(code: &str) -> String {
    let mut out = String::new();
    let mut in_str = false;
    let mut prev = ' ';
    for c in code.chars() {
        if c == '"' && prev != '\\' && prev != '\'' {
            in_str = !in_str;
            out.push('"');
        } else if !in_str {
            out.push(c);
        }
        prev = c;
    }
    out
}

fn has_index_or_arith(code: &str) -> bool {
    let cs: Vec<char> = code.chars().collect();
    for (i, &c) in cs.iter().enumerate() {
        if c == '[' && i > 0 {
            let p = cs[i - 1];
            if p.is_alphanumeric() || p == '_' || p == ')' || p == ']' {
                return true; // expr[..]: an index (macros have `!`, types `&`/`<`/space, attributes `#` before `[`)
            }
        }
    }
    let padded = format!(" {code} ");
    [" + ", " - ", "+=", "-="].iter().any(|t| padded.contains(t))
}

fn audit_index_arith_sites(s: &mut Session) {
    let repo = std::env::var("VERIF_REPO").unwrap_or_else(|_| "/repo".into());
    let mut sites = 0;
    for (file, fns) in MODELLED_FNS {
        let src = match std::fs::read_to_string(format!("{repo}/src/{file}")) {
            Ok(x) => x,
            Err(e) => {
                s.fail("source-unreadable", format!("{file}: {e}"), format!("static index/arith audit of {file}"));
                continue;
            }
        };
        let lines: Vec<&str> = src.lines().collect();
        let end = lines.iter().position(|l| l.starts_with("mod tests") || l.starts_with("mod test ")).unwrap_or(lines.len());
        let mut depth: i64 = 0; // brace depth inside a modelled fn (0 = outside)
        let mut in_fn = false;
        let mut seen_open = false;
        for i in 0..end {
            let code = strip_strings(lines[i].split("//").next().unwrap_or("").trim());
            if !in_fn {
                let is_start = fns.iter().any(|f| code.contains(&format!("fn {f}(")) || code.contains(&format!("fn {f}<")));
                if !is_start {
                    continue;
                }
                in_fn = true;
                seen_open = false;
                depth = 0;
            }
            // the signature (possibly several lines, up to and including the line of the opening
            // brace) is not part of the body
            let in_body = seen_open;
            for c in code.chars() {
                if c == '{' {
                    depth += 1;
                    seen_open = true;
                } else if c == '}' {
                    depth -= 1;
                }
            }
            if in_body && has_index_or_arith(&code) {
                sites += 1;
                let norm = code.split_whitespace().collect::<Vec<_>>().join(" ");
                let ok = AUDITED_IDX_ARITH.iter().any(|(f, t, _)| f == file && *t == norm);
                if std::env::var("C18_LIST_SITES").is_ok() {
                    println!("IDXARITH {file}:{} {} `{norm}`", i + 1, if ok { "ok" } else { "UNAUDITED" });
                }
                if !ok {
                    s.fail(
                        "unaudited-index-or-arith-site",
                        format!("src/{file}:{}: `{norm}` indexes a Vec/slice or uses an unchecked +/- inside a function body that coq/model/SysPanic.v transcribes, and is not in the audited list (new psite?)", i + 1),
                        format!("static index/arith audit of src/{file}:{}", i + 1),
                    );
                }
            }
            if seen_open && depth <= 0 {
                in_fn = false;
            }
        }
    }
    s.count_n("static_index_arith_sites_audited", sites);
    s.oracle_only("static audit: Vec/slice index and unchecked +/- sites in the function bodies transcribed by coq/model/SysPanic.v (multi.rs state.rs draw_target.rs)".into(), true);
}

// ------------------------------------------------------------------ generators
/// terminal sizes of the fault sweep: degenerate widths (0 = a terminal reporting no columns) and
/// heights lower than the frames included
const WIDTHS: [u16; 7] = [0, 1, 2, 3, 7, 20, 80];
const HEIGHTS: [u16; 6] = [1, 2, 3, 5, 10, 30];
fn gen_single(r: &mut Rng) -> Case {
    let w = *r.pick(&WIDTHS);
    let wu = w as usize;
    let bar = BarInit {
        len: if r.chance(1, 4) { None } else { Some(r.below(50)) },
        fin: gen_fin_short(r, wu),
        tmpl: gen_small_tmpl(r, wu, 0),
        target: TInit::Term(*r.pick(&[None, None, Some(20u8)])),
    };
    let mut t = 0;
    let mut ops = vec![];
    for _ in 0..r.range(4, 14) {
        t += gen_gap(r);
        ops.push((
            t,
            match r.below(16) {
                0..=1 => Op::Tick(0),
                2..=3 => Op::Inc(0, r.below(4)),
                4 => Op::SetPos(0, r.below(60)),
                5 => Op::SetMsg(0, gen_short_text(r, wu)),
                6 => Op::SetLen(0, r.below(60)),
                7..=8 => Op::Println(0, gen_multiline(r, wu)),
                9 => Op::Suspend(0, gen_suspend_lines(r, wu)),
                10 => Op::SetTabWidth(0),
                11 => Op::ForceDraw(0),
                12 => Op::Reset(0),
                13 => Op::Finish(0, gen_fin_short(r, wu)),
                14 => Op::FinishUsingStyle(0),
                _ => Op::SetPrefix(0, gen_short_text(r, wu)),
            },
        ));
    }
    if r.chance(1, 2) {
        ops.push((t + 1, Op::Drop(0)));
    }
    Case { w, h: *r.pick(&HEIGHTS), fail_at: vec![], fail_from: None, mp: TInit::Hidden, bars: vec![bar], ops }
}

fn gen_multi(r: &mut Rng) -> Case {
    let mut cfg = GenCfg::default_multi();
    cfg.max_bars = 3;
    cfg.max_ops = 16;
    cfg.w_log = 30;
    cfg.w_finish = 15;
    cfg.w_struct = 20;
    cfg.hz = *r.pick(&[None, None, Some(20u8)]);
    cfg.widths = WIDTHS.to_vec();
    cfg.heights = HEIGHTS.to_vec();
    let mut c = gen_multi_case(r, &cfg);
    // set_tab_width on a member was one of the D10 sites
    if let Some(b) = c.ops.iter().find_map(|(_, o)| if let Op::Insert(_, b) = o { Some(*b) } else { None }) {
        let t = c.ops.last().map_or(0, |x| x.0);
        if !c.ops.iter().any(|(_, o)| matches!(o, Op::Drop(x) if *x == b)) {
            let at = r.range(1, c.ops.len() as u64) as usize;
            let tt = c.ops[at - 1].0;
            c.ops.insert(at, (tt, Op::SetTabWidth(b)));
            let _ = t;
        }
    }
    c
}

fn all_getters(r: &Running) -> Vec<Option<Getters>> {
    r.bars
        .iter()
        .map(|b| {
            b.as_ref().map(|pb| Getters {
                pos: pb.position(),
                len: pb.length(),
                finished: pb.is_finished(),
                msg: pb.message(),
                prefix: pb.prefix(),
            })
        })
        .collect()
}

struct FaultRun {
    obs: Vec<StepObs>,
    /// call numbers at which a failure was injected during the history proper
    injected_at: Vec<u64>,
    /// (class, detail) of the first oracle violation
    bad: Option<(String, String)>,
    injected: u64,
}

/// one faulty run on fresh objects, checked against the fault-free twin `twin`
fn run_faulty(case: &Case, twin: &[StepObs], kind: std::io::ErrorKind, fail_flush: bool) -> FaultRun {
    let mut r = start(case);
    {
        let mut sp = r.spy.0.lock().unwrap();
        sp.fail_kind = kind;
        sp.fail_flush = fail_flush;
    }
    let mut obs = vec![];
    let mut bad: Option<(String, String)> = None;
    let inj = |r: &Running| r.spy.0.lock().unwrap().failures_injected;
    for (k, (t, op)) in case.ops.iter().enumerate() {
        let before = inj(&r);
        let res = apply(&mut r, *t, op);
        let emitted = r.spy.take();
        let delta = inj(&r) - before;
        match res {
            Err(e) => {
                bad = Some((format!("io-fault-panic:{}", op.name()), format!("op {k} {:?} panicked: {e}", op)));
                obs.push(StepObs { emitted, ok: false, getters: vec![], panic: Some(e) });
                break;
            }
            Ok(ok) => {
                let g = match catch(|| all_getters(&r)) {
                    Ok(g) => g,
                    Err(e) => {
                        bad = Some(("io-fault-poisoned-getter".into(), format!("getter panicked after op {k} {:?}: {e}", op)));
                        obs.push(StepObs { emitted, ok, getters: vec![], panic: Some(e) });
                        break;
                    }
                };
                if bad.is_none() {
                    if let Some(tw) = twin.get(k) {
                        if tw.getters != g {
                            bad = Some((
                                "io-fault-state-differs".into(),
                                format!("after op {k} {:?}: {:?} but the fault-free run has {:?}", op, g, tw.getters),
                            ));
                        }
                    }
                    let reporting = matches!(op, Op::MPrintln(_) | Op::MClear);
                    if reporting && ok && delta > 0 {
                        bad = Some(("io-error-not-reported".into(), format!("op {k} {:?} returned Ok although {delta} of its terminal calls failed", op)));
                    }
                    if reporting && !ok && delta == 0 {
                        bad = Some(("io-error-spurious".into(), format!("op {k} {:?} returned Err although none of its terminal calls failed", op)));
                    }
                }
                obs.push(StepObs { emitted, ok, getters: g, panic: None });
            }
        }
    }
    let injected_at = r.spy.0.lock().unwrap().injected_at.clone();
    if bad.is_none() {
        // final round: the same and sibling bars, the MultiProgress, then the drops
        let spy = r.spy.clone();
        let round = catch(|| {
            for pb in r.bars.iter().flatten() {
                let _ = (pb.position(), pb.length(), pb.message(), pb.prefix(), pb.is_finished(), pb.is_hidden());
                pb.tick();
                pb.println("final round");
                pb.set_tab_width(4);
                pb.suspend(|| {
                    let _ = indicatif::TermLike::write_line(&spy, "w");
                });
                pb.set_message("m");
            }
            let _ = r.mp.println("mp final round");
            let _ = r.mp.clear();
            r.mp.suspend(|| {});
            let _ = r.mp.is_hidden();
        });
        if let Err(e) = round {
            bad = Some(("io-fault-poisoned".into(), format!("the final round of calls after the history panicked: {e}")));
        }
    }
    let injected = inj(&r);
    if let Err(e) = catch(move || drop(r)) {
        if bad.is_none() {
            bad = Some(("io-fault-panic:drop".into(), format!("dropping the objects after the history panicked: {e}")));
        }
    }
    FaultRun { obs, injected_at, bad, injected }
}

// ------------------------------------------------------------------ steady ticker vs a terminal that fails for a while
/// waits (real time) until `f` holds; `ms` nominal, tripled before giving up (a loaded machine must
/// not produce a false alarm - a dead ticker stays dead however long one waits)
fn wait_for(ms: u64, mut f: impl FnMut() -> bool) -> bool {
    let t0 = std::time::Instant::now();
    while t0.elapsed() < std::time::Duration::from_millis(3 * ms) {
        if f() {
            return true;
        }
        std::thread::sleep(std::time::Duration::from_millis(1));
    }
    f()
}

/// A bar (standalone or member of a MultiProgress) with enable_steady_tick on a terminal that
/// fails every call during a window and then recovers.  Not expressible in Sys.v (no ticker in
/// the model): oracle only.  "later calls keep working": after the recovery frames arrive again
/// without any manual call, and a position change made then is eventually painted.
fn ticker_scenarios(s: &mut Session, r: &mut Rng, n: usize) {
    use indicatif::verif_clock as vc;
    use indicatif::{MultiProgress, ProgressBar, ProgressDrawTarget};
    for i in 0..n {
        let interval = r.range(2, 10);
        let member = i % 3 == 2;
        let kind = FAIL_KINDS[i % FAIL_KINDS.len()];
        let fail_ticks = r.range(1, 4); // failed ticks inside the window
        let desc = format!(
            "ticker scenario #{i}: {} bar, enable_steady_tick({interval} ms), terminal fails every call (kind {:?}) for >= {fail_ticks} tick(s), then recovers; then inc(1)",
            if member { "MultiProgress member" } else { "standalone" },
            kind
        );
        vc::set_clock_ns(vc::ORIGIN_NS);
        vc::set_auto_step_ns(1_000_000);
        let spy = Spy::new(40, 20);
        spy.0.lock().unwrap().fail_kind = kind;
        let flushes = |spy: &Spy| spy.0.lock().unwrap().ops.iter().filter(|o| **o == TOp::Flush).count();
        let spy2 = spy.clone();
        let res = catch(move || -> Option<(&'static str, String)> {
            let spy = spy2;
            let mp = MultiProgress::with_draw_target(ProgressDrawTarget::term_like(Box::new(spy.clone())));
            let pb = if member {
                mp.add(ProgressBar::with_draw_target(Some(100), ProgressDrawTarget::hidden()))
            } else {
                ProgressBar::with_draw_target(Some(100), ProgressDrawTarget::term_like(Box::new(spy.clone())))
            };
            pb.set_style(style_of(&[TPart::Lit("P".into()), TPart::Pos, TPart::Lit("E".into())]));
            pb.enable_steady_tick(std::time::Duration::from_millis(interval));
            if !wait_for(500, || flushes(&spy) >= 2) {
                return Some(("ticker-never-drew", "no frame arrived within the waiting time after enable_steady_tick".into()));
            }
            // the window: every call fails
            {
                let mut st = spy.0.lock().unwrap();
                st.fail_from = Some(st.calls);
            }
            let inj0 = spy.0.lock().unwrap().failures_injected;
            let seen = wait_for(500, || spy.0.lock().unwrap().failures_injected >= inj0 + fail_ticks);
            // recovery
            {
                let mut st = spy.0.lock().unwrap();
                st.fail_from = None;
                st.ops.clear();
            }
            if !seen && spy.0.lock().unwrap().failures_injected == inj0 {
                return Some(("ticker-never-drew", "the ticker made no call during the failure window".into()));
            }
            // (fewer failed ticks than waited for: the thread may already be gone - the checks below tell)
            if !wait_for(500, || flushes(&spy) >= 1) {
                return Some((
                    "ticker-dead-after-io-error",
                    "after the terminal recovered no frame arrived any more without a manual call: the steady tick thread is gone".into(),
                ));
            }
            pb.inc(1);
            let want = "P1E".to_string();
            if !wait_for(500, || spy.0.lock().unwrap().ops.iter().any(|o| matches!(o, TOp::Str(t) if *t == want))) {
                return Some((
                    "ticker-dead-after-io-error",
                    "after the terminal recovered inc(1) was never painted (position() = 1, no frame with P1E)".into(),
                ));
            }
            if pb.position() != 1 {
                return Some(("io-fault-state-differs", format!("position() = {} after inc(1)", pb.position())));
            }
            pb.finish_and_clear();
            drop(pb);
            drop(mp);
            None
        });
        vc::set_auto_step_ns(0);
        match res {
            Err(e) => s.fail("io-fault-panic:ticker", e, desc.clone()),
            Ok(Some((class, detail))) => s.fail(class, detail, desc.clone()),
            Ok(None) => {}
        }
        s.count("ticker_scenarios");
        s.oracle_only(desc, true);
    }
}

// ------------------------------------------------------------------ witnesses of the no-panic theorems (props/C18.v)
/// D31 (fixed by /repo f8fa07f): on a zero-width terminal the zombie scan of MultiState::draw used
/// to overflow (`adjust += line_count`, src/multi.rs:324; now `saturating_add`).  The witness
/// history is replayed on every run and must NOT panic; if the overflow reappears it is reported
/// as a failure of class `zero-width-zombie-scan-add-overflow` (regression).
fn np_case(w: u16, h: u16, ops: Vec<(u64, Op)>) -> Case {
    let bar = BarInit { len: Some(10), fin: Fin::AndLeave, tmpl: vec![TPart::Lit("x".into()), TPart::Pos], target: TInit::Hidden };
    Case { w, h, fail_at: vec![], fail_from: None, mp: TInit::Term(None), bars: vec![bar.clone(), bar.clone(), bar.clone(), bar], ops }
}

/// Replays the witnesses of C18_zero_width_overflow_regression, C18_misuse_yields_site and
/// C18_no_panic_nonvacuous (coq/model/SysPanic.v: np_ops, np_ops2) on the implementation: the
/// model's [step_panics] verdict must be what the real code does.
fn replay_nopanic_witnesses(s: &mut Session) {
    use Op::*;
    // np_ops ++ [tick d]
    let mut ops: Vec<(u64, Op)> = vec![
        (0, Insert(Loc::End, 0)), (0, Insert(Loc::End, 1)), (0, Insert(Loc::End, 2)), (0, Insert(Loc::End, 3)),
        (1, Tick(0)), (1, Tick(1)), (1, Tick(2)), (1, Tick(3)),
        (2, Finish(1, Fin::AndLeave)), (2, Finish(2, Fin::AndLeave)), (3, Drop(1)), (3, Drop(2)),
        (4, Finish(0, Fin::AndLeave)), (5, Drop(0)),
    ];
    ops.push((6, Tick(3)));
    for w in [0u16, 1] {
        let case = np_case(w, 10, ops.clone());
        let obs = run_case(&case);
        let desc = format!("no-panic witness np_ops + tick (SysPanic.v) {}", describe(&case));
        let p = obs.iter().enumerate().find_map(|(i, o)| o.panic.clone().map(|m| (i, m)));
        match (w, p) {
            (0, Some((i, m))) if m.contains("overflow") => s.fail(
                "zero-width-zombie-scan-add-overflow",
                format!("op {i} panicked on a zero-width terminal: {m} (model of the current code: step_panics = None; the guards of the code before f8fa07f: Some P_draw_adjust_add at op 14)"),
                desc.clone(),
            ),
            (_, Some((i, m))) => s.fail("panic", format!("op {i}: {m} (model: no site reachable here)"), desc.clone()),
            (0, None) => s.count("witness:np_ops-at-width-0:no-panic"),
            (_, None) => s.count("witness:np_ops-at-width-1:no-panic"),
        }
        s.oracle_only(desc, true);
    }
    // misuse: the reference bar (2) was never added; model: Some P_insert_after_index_unwrap /
    // Some P_insert_before_index_unwrap (also when the bar to insert is a member already)
    for (name, op) in [("insert_after", Insert(Loc::After(2), 1)), ("insert_before", Insert(Loc::Before(2), 0))] {
        let case = np_case(5, 10, vec![(0, Insert(Loc::End, 0)), (1, op)]);
        let obs = run_case(&case);
        let desc = format!("misuse witness {name} (SysPanic.v misuse_site) {}", describe(&case));
        match obs.get(1).and_then(|o| o.panic.clone()) {
            Some(m) if m.contains("unwrap") && m.contains("None") => s.count(&format!("witness:misuse-{name}:panics-at-index-unwrap")),
            Some(m) => s.fail("misuse-other-site", format!("{name} relative to a non-member panicked with: {m} (model: index().unwrap())"), desc.clone()),
            None => s.fail("misuse-did-not-panic", format!("{name} relative to a non-member returned (model: panics at index().unwrap())"), desc.clone()),
        }
        s.oracle_only(desc, true);
    }
    // np_ops2 under np_fails2 on a 7x4 terminal: no site is reached (C18_no_panic_nonvacuous)
    let ops2: Vec<(u64, Op)> = vec![
        (0, Insert(Loc::End, 0)), (0, Insert(Loc::After(0), 1)), (0, Insert(Loc::Before(0), 2)), (0, Insert(Loc::FromBack(1), 3)),
        (0, Insert(Loc::End, 1)), (1, SetAlign(true)), (1, Tick(0)), (1, Inc(1, 3)), (1, SetMsg(2, "m".into())), (2, Println(3, "h\ni".into())),
        (3, Suspend(1, vec!["A".into()])), (4, MSuspend(vec!["B".into(), "C".into()])), (5, Remove(3)), (6, MPrintln("p".into())),
        (7, Finish(0, Fin::AndLeave)), (7, Drop(0)), (8, Drop(2)), (9, MClear), (10, Tick(1)), (11, Finish(1, Fin::AndClear)), (12, Drop(1)),
    ];
    {
        let mut c0 = np_case(0, 4, ops2.clone());
        c0.fail_at = vec![7, 30, 31, 32, 33, 34, 35, 36, 37, 38, 39];
        let obs0 = run_case(&c0);
        let d0 = format!("no-panic witness np_ops2 / np_fails2 on a ZERO-WIDTH terminal (SysPanic.v) {}", describe(&c0));
        match obs0.iter().enumerate().find_map(|(i, o)| o.panic.clone().map(|m| (i, m))) {
            Some((i, m)) if m.contains("overflow") => s.fail("zero-width-arith-overflow", format!("op {i}: {m} (model: run_panics 0 4 = None)"), d0.clone()),
            Some((i, m)) => s.fail("panic", format!("op {i}: {m} (model: run_panics 0 4 = None)"), d0.clone()),
            None => s.count("witness:np_ops2-at-width-0:no-panic"),
        }
        s.oracle_only(d0, true);
    }
    let mut case = np_case(7, 4, ops2);
    case.fail_at = vec![7, 30, 31, 32, 33, 34, 35, 36, 37, 38, 39];
    let obs = run_case(&case);
    let desc = format!("no-panic witness np_ops2 / np_fails2 (SysPanic.v) {}", describe(&case));
    if let Some((i, m)) = obs.iter().enumerate().find_map(|(i, o)| o.panic.clone().map(|m| (i, m))) {
        s.fail("panic", format!("op {i}: {m} (model: run_panics = None)"), desc.clone());
        s.oracle_only(desc, true);
    } else {
        s.count("witness:np_ops2:no-panic");
        s.case(coq_case(&case, &obs), desc, true);
    }
}

fn main() {
    let a = args();
    let mut s = Session::new(&a, "C18", COQ_HEADER, COQ_CASE_TY, COQ_CHECKER);
    s.shard_size = 150;
    s.rule = "terminal widths 0/1/2/3/7/20/80 x heights 1/2/3/5/10/30 (histogram W:/H: in the distribution); histories (single bar on a terminal incl. println/suspend/set_tab_width/finish/drop; MultiProgress histories with add/insert/remove, println/suspend/clear of bars and of the MultiProgress, finishes and drops); for each history the fault-free run, then for EVERY k below its number of TermLike calls (sampled above the cap) the runs 'only call k fails' and 'all calls from k on fail' on fresh objects; oracle: no panic, getters equal the fault-free twin after every op, mp.println/clear Err iff one of their own calls failed, final round of calls on every bar and the MultiProgress works, drops do not panic; a sample of the faulty runs is compared with the model (sys_check with fail_at/fail_from); the injected io::ErrorKind rotates through Interrupted/WouldBlock/BrokenPipe/Other/TimedOut/UnexpectedEof (recorded in the case text); per history and kind one run in which EVERY flush fails (>= 3 consecutive failing flushes); 36 real-time steady-ticker scenarios (terminal fails for a window, then recovers: frames must arrive again and a later inc must be painted); non-trivial = at least one failure was injected; distinct = distinct case text; plus the static audit of unwrap/expect/panic sites".into();
    audit_panic_sites(&mut s);
    audit_index_arith_sites(&mut s);
    replay_nopanic_witnesses(&mut s);
    let mut r = Rng::new(a.seed);
    ticker_scenarios(&mut s, &mut r.fork(), if a.thorough { 120 } else { 36 });
    let (n_hist, cap_k, corr_per_hist) = if a.thorough { (700, 400, 14) } else if a.extended { (500, 200, 10) } else { (110, 120, 12) };
    for i in 0..n_hist {
        let case = if i % 2 == 0 { gen_single(&mut r) } else { gen_multi(&mut r) };
        let twin = run_case(&case);
        if let Some(p) = twin.iter().find_map(|o| o.panic.clone()) {
            s.fail("panic", format!("fault-free run: {p}"), describe(&case));
            continue;
        }
        let total: u64 = twin.iter().map(|o| o.emitted.len() as u64).sum();
        s.count_n("termlike_calls_fault_free", total);
        for (_, o) in &case.ops {
            s.count(&format!("op:{}", o.name()));
        }
        s.count(&format!("W:{}", case.w));
        s.count(&format!("H:{}", case.h));
        s.count(&format!("bars:{}", case.bars.len()));
        // W = 0 is outside the domain of model/Sys.v (Text.v: wrapped_height divides by the width;
        // the code computes ceil(cols / 0.0) = usize::MAX rows per non-empty line): such runs are
        // evaluated by the oracle only (no panic, state, reporting, poisoning)
        let in_model = case.w >= 1;
        if in_model {
            s.case(coq_case(&case, &twin), describe(&case), false);
        } else {
            s.oracle_only(describe(&case), false);
        }
        // every k (capped), both fault modes
        let mut ks: Vec<u64> = (0..total.min(cap_k)).collect();
        for _ in 0..((total.saturating_sub(cap_k)).min(40)) {
            ks.push(r.range(cap_k, total - 1));
        }
        let mut corr: Vec<(Case, Vec<StepObs>, bool, String)> = vec![];
        // every flush() of the history fails, once per error kind (>= 3 consecutive failing
        // flushes whenever the history draws three times); replayable as fail_at = the call numbers
        for (j, kind) in FAIL_KINDS.iter().enumerate() {
            let fr = run_faulty(&case, &twin, *kind, true);
            s.count("faulty_runs:every_flush_fails");
            s.count(&format!("error_kind:{:?}", kind));
            s.count_n("failures_injected", fr.injected);
            let mut c = case.clone();
            c.fail_at = fr.injected_at.clone();
            let desc = format!("kind={:?} every-flush-fails {}", kind, describe(&c));
            if let Some((class, detail)) = fr.bad {
                s.fail(&class, format!("[error kind {:?}] {detail}", kind), desc.clone());
            }
            if j == i % 6 && in_model {
                s.case(coq_case(&c, &fr.obs), desc, fr.injected > 0);
            } else {
                s.oracle_only(desc, fr.injected > 0);
            }
        }
        let mut run_no = i;
        for &k in &ks {
            for mode in 0..2 {
                let mut c = case.clone();
                if mode == 0 {
                    c.fail_at = vec![k];
                    if r.chance(1, 4) {
                        c.fail_at.push(k + r.range(1, 9)); // a second, later failure
                    }
                } else {
                    c.fail_from = Some(k);
                }
                run_no += 1;
                let kind = FAIL_KINDS[run_no % FAIL_KINDS.len()];
                let fr = run_faulty(&c, &twin, kind, false);
                s.count(if mode == 0 { "faulty_runs:fail_at" } else { "faulty_runs:fail_from" });
                s.count(&format!("error_kind:{:?}", kind));
                s.count_n("failures_injected", fr.injected);
                let desc = format!("kind={:?} {}", kind, describe(&c));
                if let Some((class, detail)) = fr.bad {
                    s.fail(&class, format!("[error kind {:?}] {detail}", kind), desc.clone());
                }
                let rep = fr.obs.iter().zip(c.ops.iter()).filter(|(o, (_, op))| !o.ok && matches!(op, Op::MPrintln(_) | Op::MClear)).count();
                s.count_n("io_errors_reported", rep as u64);
                if corr.len() < corr_per_hist * 4 {
                    corr.push((c, fr.obs, fr.injected > 0, desc));
                } else {
                    s.oracle_only(desc, fr.injected > 0);
                }
            }
        }
        // correspondence sample: spread over k
        let step = (corr.len() / corr_per_hist).max(1);
        for (j, (c, o, nt, d)) in corr.into_iter().enumerate() {
            if j % step == 0 && in_model {
                s.case(coq_case(&c, &o), d, nt);
            } else {
                s.oracle_only(d, nt);
            }
        }
        let _ = TOp::Flush;
    }
    s.finish();
}
