//! C10 – template parsing is total and preserves literal text.
//! Correspondence with model/Template.v (public API only: with_template + a bar drawn on a
//! recording terminal, every key overridden through with_key) and a direct oracle that renders
//! the grammar AST independently of any parser.
use indicatif::{ProgressBar, ProgressDrawTarget, ProgressState, ProgressStyle};
use std::collections::BTreeMap;
use verif_harness::spy::{Spy, TOp};
use verif_harness::*;

const BUILTIN: [&str; 28] = [
    "wide_bar", "bar", "spinner", "wide_msg", "msg", "prefix", "pos", "human_pos", "len", "human_len",
    "percent", "percent_precise", "bytes", "total_bytes", "decimal_bytes", "decimal_total_bytes",
    "binary_bytes", "binary_total_bytes", "elapsed_precise", "elapsed", "per_sec", "bytes_per_sec",
    "decimal_bytes_per_sec", "binary_bytes_per_sec", "eta_precise", "eta", "duration_precise", "duration",
];
const STATES: [&str; 8] = ["Literal", "MaybeOpen", "DoubleClose", "Key", "Align", "Width", "FirstStyle", "AltStyle"];
const WS: [char; 5] = [' ', '\t', '\n', '\x0c', '\r'];

// ------------------------------------------------------------------ grammar AST (oracle side)
#[derive(Clone, Debug)]
struct Fmt {
    align: Option<char>,
    width: String,
    trunc: bool,
    style: Option<(String, Option<String>)>,
}
#[derive(Clone, Debug)]
enum Item {
    Lit(String),
    EscOpen,
    EscClose,
    BraceWs(char),
    Newline,
    Ph(String, Option<Fmt>),
}

fn print_item(i: &Item, o: &mut String) {
    match i {
        Item::Lit(s) => o.push_str(s),
        Item::EscOpen => o.push_str("{{"),
        Item::EscClose => o.push_str("}}"),
        Item::BraceWs(c) => {
            o.push('{');
            o.push(*c)
        }
        Item::Newline => o.push('\n'),
        Item::Ph(k, f) => {
            o.push('{');
            o.push_str(k);
            if let Some(f) = f {
                o.push(':');
                if let Some(a) = f.align {
                    o.push(a)
                }
                o.push_str(&f.width);
                if f.trunc {
                    o.push('!')
                }
                if let Some((s, a)) = &f.style {
                    o.push('.');
                    o.push_str(s);
                    if let Some(a) = a {
                        o.push('/');
                        o.push_str(a)
                    }
                }
            }
            o.push('}');
        }
    }
}

fn coq_item(i: &Item) -> String {
    match i {
        Item::Lit(s) => format!("ILit {}", cstr(s)),
        Item::EscOpen => "IEscOpen".into(),
        Item::EscClose => "IEscClose".into(),
        Item::BraceWs(c) => format!("IBraceWs {}", *c as u32),
        Item::Newline => "INewline".into(),
        Item::Ph(k, None) => format!("IPh {} None", cstr(k)),
        Item::Ph(k, Some(f)) => format!(
            "IPh {} (Some (mkfmt {} {} {} {}))",
            cstr(k),
            match f.align {
                Some('<') => "(Some ALeft)",
                Some('^') => "(Some ACenter)",
                Some('>') => "(Some ARight)",
                _ => "None",
            },
            cstr(&f.width),
            cbool(f.trunc),
            match &f.style {
                None => "None".to_string(),
                Some((s, None)) => format!("(Some ({}, None))", cstr(s)),
                Some((s, Some(a))) => format!("(Some ({}, Some {}))", cstr(s), cstr(a)),
            }
        ),
    }
}

/// The width the digit string denotes, None if it does not fit 16 bits.
fn width_value(ds: &str) -> Option<Option<u16>> {
    if ds.is_empty() {
        return Some(None);
    }
    let t = ds.trim_start_matches('0');
    if t.len() > 5 {
        return None;
    }
    let v: u64 = if t.is_empty() { 0 } else { t.parse().unwrap() };
    if v > 65535 {
        None
    } else {
        Some(Some(v as u16))
    }
}

fn style_wrap(style: Option<&str>, text: String) -> String {
    match style {
        Some(s) if !s.is_empty() => console::Style::from_dotted_str(s).force_styling(true).apply_to(text).to_string(),
        _ => text,
    }
}

/// Independent statement of the property: the text a well-formed template stands for.
/// One string with '\n' at every template line end; lines = pieces between the '\n's, a final
/// empty piece is not a line.  Padding uses std's formatter, not a copy of the crate's code.
fn spec_render(t: &[Item], env: &BTreeMap<String, String>, tw: usize, bar0: bool) -> Vec<String> {
    let tabs = |s: &str| s.replace('\t', &" ".repeat(tw));
    let mut all = String::new();
    for i in t {
        match i {
            Item::Lit(s) => all.push_str(&tabs(s)),
            Item::EscOpen => all.push('{'),
            Item::EscClose => all.push('}'),
            Item::BraceWs(c) => {
                all.push('{');
                all.push_str(&tabs(&c.to_string()))
            }
            Item::Newline => all.push('\n'),
            Item::Ph(k, f) => {
                let (align, width, trunc, style, alt) = match f {
                    None => (None, None, false, None, None),
                    Some(f) => (
                        f.align,
                        width_value(&f.width).expect("spec_render called with an overflowing width"),
                        f.trunc,
                        f.style.as_ref().map(|x| x.0.as_str()),
                        f.style.as_ref().and_then(|x| x.1.as_deref()),
                    ),
                };
                let text = match env.get(k) {
                    None if k == "bar" && bar0 => {
                        let n = width.unwrap_or(20) as usize;
                        style_wrap(alt, "\u{2591}".repeat(n))
                    }
                    other => {
                        let v = other.cloned().unwrap_or_default(); // unknown key: nothing
                        match width {
                            None => v,
                            Some(w) => {
                                let (w, n) = (w as usize, v.chars().count());
                                if n > w {
                                    if !trunc {
                                        v
                                    } else {
                                        let skip = match align {
                                            Some('>') => n - w,
                                            Some('^') => (n - w) / 2,
                                            _ => 0,
                                        };
                                        v.chars().skip(skip).take(w).collect()
                                    }
                                } else {
                                    match align {
                                        Some('>') => format!("{v:>w$}"),
                                        Some('^') => format!("{v:^w$}"),
                                        _ => format!("{v:<w$}"),
                                    }
                                }
                            }
                        }
                    }
                };
                all.push_str(&style_wrap(style, text));
            }
        }
    }
    let mut lines: Vec<String> = all.split('\n').map(|s| s.to_string()).collect();
    if lines.last().map_or(false, |l| l.is_empty()) {
        lines.pop();
    }
    lines
}

// ------------------------------------------------------------------ running the implementation
enum Obs {
    Panic(String),
    Err(usize, char, String),
    Lines(Vec<String>),
    DrawPanic(String),
    BadOps(String),
}

fn key_candidates(t: &str) -> Vec<String> {
    let cs: Vec<char> = t.chars().collect();
    let mut out = vec![];
    for i in 0..cs.len() {
        if cs[i] == '{' {
            let k: String = cs[i + 1..].iter().take_while(|c| **c != '}' && **c != ':' && !c.is_ascii_whitespace()).collect();
            if !k.is_empty() && !out.contains(&k) {
                out.push(k);
            }
        }
    }
    out
}

fn style_candidates(t: &str) -> Vec<String> {
    let cs: Vec<char> = t.chars().collect();
    let mut out = vec![];
    for i in 0..cs.len() {
        let k: String = match cs[i] {
            '.' => cs[i + 1..].iter().take_while(|c| **c != '}' && **c != '/').collect(),
            '/' => cs[i + 1..].iter().take_while(|c| **c != '}').collect(),
            _ => continue,
        };
        if !k.is_empty() && !out.contains(&k) {
            out.push(k);
        }
    }
    out
}

fn style_prefix(s: &str) -> (String, String) {
    let full = console::Style::from_dotted_str(s).force_styling(true).apply_to("\u{1}").to_string();
    let mut it = full.splitn(2, '\u{1}');
    (it.next().unwrap().to_string(), it.next().unwrap_or("").to_string())
}

fn parse_err(msg: &str, t: &str) -> Option<(usize, char)> {
    for (si, st) in STATES.iter().enumerate() {
        for c in t.chars() {
            if msg == format!("TemplateError: unexpected character {c:?} in state {st}") {
                return Some((si, c));
            }
        }
    }
    None
}

fn run_impl(t: &str, env: &BTreeMap<String, String>, tw: usize, via_template: bool) -> Obs {
    let built = catch(|| {
        if via_template {
            ProgressStyle::default_bar().template(t)
        } else {
            ProgressStyle::with_template(t)
        }
    });
    let style = match built {
        Err(p) => return Obs::Panic(p),
        Ok(Err(e)) => {
            // Display for TemplateError is indicatif code too: a panic there is an outcome
            let m = match catch(|| e.to_string()) {
                Ok(m) => m,
                Err(p) => return Obs::Panic(format!("Display for TemplateError: {p}")),
            };
            return match parse_err(&m, t) {
                Some((s, c)) => Obs::Err(s, c, m),
                None => Obs::BadOps(format!("unparsable TemplateError text {m:?}")),
            };
        }
        Ok(Ok(s)) => s,
    };
    let spy = Spy::new(u16::MAX, u16::MAX);
    let r = catch(|| {
        let mut style = style;
        for (k, v) in env {
            let key: &'static str = Box::leak(k.clone().into_boxed_str());
            let v = v.clone();
            style = style.with_key(key, move |_: &ProgressState, w: &mut dyn std::fmt::Write| {
                let _ = w.write_str(&v);
            });
        }
        let pb = ProgressBar::with_draw_target(Some(10), ProgressDrawTarget::term_like(Box::new(spy.clone())))
            .with_tab_width(tw);
        pb.set_style(style);
        pb.force_draw();
        let ops = spy.take();
        pb.abandon();
        ops
    });
    let ops = match r {
        Err(p) => return Obs::DrawPanic(p),
        Ok(o) => o,
    };
    // A frame is: cursor moves (all by 0 on a fresh target), then per line one write_str of the
    // line, optionally one write_str of a right-edge filler (spaces only), rows separated by
    // write_line("").  The last row always carries the filler.
    let mut rows: Vec<Vec<String>> = vec![vec![]];
    for o in &ops {
        match o {
            TOp::Up(0) | TOp::Flush => {}
            TOp::Str(s) => rows.last_mut().unwrap().push(s.clone()),
            TOp::Line(s) if s.is_empty() => rows.push(vec![]),
            other => return Obs::BadOps(format!("unexpected terminal op {other:?}")),
        }
    }
    if rows.len() == 1 && rows[0].is_empty() {
        return Obs::Lines(vec![]);
    }
    let nrows = rows.len();
    let mut strs = vec![];
    for (i, row) in rows.into_iter().enumerate() {
        let ok = match row.len() {
            1 => i + 1 != nrows,
            2 => row[1].chars().all(|c| c == ' '),
            _ => false,
        };
        if !ok {
            return Obs::BadOps(format!("row {i} of {nrows} was written with {} write_str calls", row.len()));
        }
        strs.push(row.into_iter().next().unwrap());
    }
    Obs::Lines(strs)
}

fn squeeze(s: &str) -> String {
    let mut out = vec![];
    let mut run = 0u64;
    for c in s.chars() {
        if c == ' ' {
            run += 1
        } else {
            if run > 0 {
                out.push(format!("{}", 4294967296u64 + run));
                run = 0
            }
            out.push(format!("{}", c as u32))
        }
    }
    if run > 0 {
        out.push(format!("{}", 4294967296u64 + run));
    }
    format!("[{}]", out.join("; "))
}

fn cpairs(m: &[(String, String)]) -> String {
    clist(m.iter().map(|(k, v)| format!("({}, {})", cstr(k), cstr(v))))
}

fn show(t: &str) -> String {
    format!("{t:?}")
}

struct Case {
    template: String,
    ast: Option<Vec<Item>>,
    env: BTreeMap<String, String>,
    tw: usize,
    bar0: bool,
    via_template: bool,
    /// the AST contains a width that does not fit 16 bits: the expected outcome is Err
    overflow: bool,
}

fn run_case(s: &mut Session, c: &Case) {
    let desc = format!(
        "template={} tab_width={} env={:?} api={}{}",
        show(&c.template),
        c.tw,
        c.env,
        if c.via_template { "template" } else { "with_template" },
        if c.ast.is_some() { " [grammar]" } else { "" }
    );
    if let Some(ast) = &c.ast {
        // which way each placeholder's key is dispatched (format_map / "bar" / `_ => ()`)
        let mut seen_known = false;
        for i in ast {
            if let Item::Ph(k, f) = i {
                if c.env.contains_key(k) {
                    s.count("key:overridden");
                    seen_known = true;
                } else if k == "bar" && c.bar0 {
                    s.count("key:builtin-bar");
                    seen_known = true;
                } else if !BUILTIN.contains(&k.as_str()) {
                    s.count("key:unknown");
                    if seen_known {
                        s.count("key:unknown-after-a-key-that-wrote");
                    }
                    if f.as_ref().map_or(false, |f| !f.width.is_empty()) {
                        s.count("key:unknown-with-width");
                    }
                    if f.as_ref().map_or(false, |f| f.style.is_some()) {
                        s.count("key:unknown-with-style");
                    }
                }
            }
        }
    }
    let obs = run_impl(&c.template, &c.env, c.tw, c.via_template);
    let styles: Vec<(String, String)> = style_candidates(&c.template)
        .into_iter()
        .filter_map(|st| {
            let (pre, suf) = style_prefix(&st);
            if pre.is_empty() {
                None
            } else {
                assert_eq!(suf, "\x1b[0m");
                Some((st, pre))
            }
        })
        .collect();
    let nontrivial = c.template.contains('{') || c.template.contains('}');
    let has_big = c.template.as_bytes().windows(5).any(|w| w.iter().all(|b| b.is_ascii_digit()));
    let cls = |c: &Case| -> &'static str {
        // narrow, decidable description of the input neighbourhood (for the failure class)
        let t = &c.template;
        if c.overflow || has_big {
            "width-exceeds-u16"
        } else if let Some(ast) = &c.ast {
            let last_sep_is_brace_nl = ast.iter().rev().find_map(|i| match i {
                Item::Newline => Some(false),
                Item::BraceWs('\n') => Some(true),
                _ => None,
            });
            let lit_before_bracews = ast.windows(2).any(|w| matches!(w[1], Item::BraceWs(_)) && !matches!(w[0], Item::Newline | Item::BraceWs('\n')));
            if last_sep_is_brace_nl == Some(true) {
                "brace-newline-final"
            } else if lit_before_bracews {
                "literal-before-brace-ws"
            } else {
                "grammar-template-misrendered"
            }
        } else if t.contains("{\n") {
            "brace-newline-final"
        } else {
            "arbitrary-template"
        }
    };
    let obs_coq = match &obs {
        Obs::Panic(p) => {
            s.count("outcome:panic");
            s.fail(cls(c), format!("with_template panicked: {p}"), desc.clone());
            s.oracle_only(desc, nontrivial);
            return;
        }
        Obs::DrawPanic(p) => {
            s.count("outcome:draw-panic");
            s.fail(cls(c), format!("drawing the accepted template panicked: {p}"), desc.clone());
            s.oracle_only(desc, nontrivial);
            return;
        }
        Obs::BadOps(m) => {
            s.count("outcome:bad-ops");
            s.fail("harness-observation", m.clone(), desc.clone());
            s.oracle_only(desc, nontrivial);
            return;
        }
        Obs::Err(st, ch, _) => {
            s.count(&format!("outcome:Err-{}", STATES[*st]));
            format!("OErr S{} {}", STATES[*st], *ch as u32)
        }
        Obs::Lines(ls) => {
            s.count("outcome:Ok");
            s.count(&format!("lines:{}", ls.len().min(5)));
            format!("OLines {}", clist(ls.iter().map(|l| squeeze(l))))
        }
    };
    // ---- oracle on grammar cases
    if let Some(ast) = &c.ast {
        match (&obs, c.overflow) {
            (Obs::Err(..), true) => {}
            (Obs::Lines(_), true) => s.fail(
                "width-exceeds-u16",
                "a width that does not fit u16 was accepted".into(),
                desc.clone(),
            ),
            (Obs::Err(_, _, m), false) => s.fail(cls(c), format!("well-formed template rejected: {m}"), desc.clone()),
            (Obs::Lines(got), false) => {
                let want = spec_render(ast, &c.env, c.tw, c.bar0);
                if *got != want {
                    s.fail(
                        cls(c),
                        format!("rendered lines {got:?}, the template stands for {want:?}"),
                        desc.clone(),
                    );
                }
            }
            _ => unreachable!(),
        }
    }
    let env: Vec<(String, String)> = c.env.iter().map(|(k, v)| (k.clone(), v.clone())).collect();
    let coq = format!(
        "({}, {}, {}, {}, {}, {})",
        cstr(&c.template),
        c.tw,
        cpairs(&env),
        cpairs(&styles),
        match &c.ast {
            Some(t) => format!("Some {}", clist(t.iter().map(coq_item))),
            None => "None".into(),
        },
        obs_coq
    );
    s.case(coq, desc, nontrivial);
}

// ------------------------------------------------------------------ source inventory
/// Blank out comments, string literals and char literals (so that '/' or "a - b" are not taken
/// for operators).
fn strip_literals(src: &str) -> String {
    let cs: Vec<char> = src.chars().collect();
    let mut out = String::new();
    let mut i = 0;
    while i < cs.len() {
        let c = cs[i];
        if c == '/' && cs.get(i + 1) == Some(&'/') {
            while i < cs.len() && cs[i] != '\n' {
                i += 1;
            }
        } else if c == '"' {
            out.push('S');
            i += 1;
            while i < cs.len() && cs[i] != '"' {
                i += if cs[i] == '\\' { 2 } else { 1 };
            }
            i += 1;
        } else if c == '\'' {
            // char literal 'x' / '\n' / '\u{..}'; a lifetime ('a, '_) has no closing quote nearby
            let close = if cs.get(i + 1) == Some(&'\\') {
                (i + 2..(i + 12).min(cs.len())).find(|&j| cs[j] == '\'')
            } else if cs.get(i + 2) == Some(&'\'') {
                Some(i + 2)
            } else {
                None
            };
            match close {
                Some(j) => {
                    out.push('C');
                    i = j + 1;
                }
                None => {
                    out.push(c);
                    i += 1;
                }
            }
        } else {
            out.push(c);
            i += 1;
        }
    }
    out
}

fn count(hay: &str, needle: &str) -> usize {
    hay.matches(needle).count()
}

/// The lines (1-based, of the whole file) of the stripped region on which `pred` holds.
fn lines_where(region: &str, first_line: usize, pred: impl Fn(&str) -> bool) -> Vec<usize> {
    region.lines().enumerate().filter(|(_, l)| pred(l)).map(|(i, _)| first_line + i).collect()
}

fn is_ident(c: char) -> bool {
    c.is_alphanumeric() || c == '_'
}

/// `x[..]`, `f()[..]`, `a[i][j]`, `x?[..]`: an index or slice expression.
fn has_index_expr(l: &str) -> bool {
    let cs: Vec<char> = l.chars().collect();
    (1..cs.len()).any(|i| cs[i] == '[' && (is_ident(cs[i - 1]) || cs[i - 1] == ')' || cs[i - 1] == ']' || cs[i - 1] == '?'))
}

/// A binary arithmetic operator (rustfmt puts blanks around them), a shift, or a compound
/// assignment.  `->`, `=>`, `*x = ..` (deref) and `&mut` are none of these.
fn has_arith(l: &str) -> bool {
    let cs: Vec<char> = l.chars().collect();
    (1..cs.len().saturating_sub(1)).any(|i| {
        matches!(cs[i], '+' | '-' | '*' | '/' | '%') && ((cs[i - 1] == ' ' && cs[i + 1] == ' ') || cs[i + 1] == '=')
    }) || l.contains("<<")
        || l.contains(">>")
}

fn has_int_cast(l: &str) -> bool {
    ["u8", "u16", "u32", "u64", "u128", "usize", "i8", "i16", "i32", "i64", "i128", "isize", "f32", "f64", "char"]
        .iter()
        .any(|t| l.contains(&format!(" as {t}")))
}

const PARTIAL_CALLS: [&str; 26] = [
    ".unwrap()", ".expect(", ".unwrap_err(", "unwrap_unchecked", "panic!", "unreachable!", "assert!", "assert_eq!", "assert_ne!",
    "todo!", "unimplemented!", ".remove(", ".swap_remove(", ".insert(", ".drain(", ".split_at(", ".split_off(", ".truncate(",
    ".replace_range(", ".copy_from_slice(", "_unchecked(", ".repeat(", "with_capacity(", ".reserve(", ".pop().unwrap", ".next().unwrap",
];

/// The no-panic clause of C10 rests on the fact that the code behind with_template/template
/// contains no operation that can panic other than the ones the model makes explicit
/// (model/Template.v header, docs/C10.md "Panic sites").  This re-counts them in the source the
/// harness was built against, so that a re-introduced `unwrap`, a new index/slice, arithmetic
/// or cast in the parser breaks the tie even when no generated template happens to hit it.
fn source_inventory(s: &mut Session) {
    let repo = std::env::var("VERIF_REPO").unwrap_or_else(|_| "/repo".into());
    let path = format!("{repo}/src/style.rs");
    let desc = format!("source inventory of {path} (Template parser, TemplateError, with_template, template)");
    s.count("stream:source-inventory");
    let src = match std::fs::read_to_string(&path) {
        Ok(x) => x,
        Err(e) => {
            s.fail("source-partial-operation-inventory", format!("cannot read the source: {e}"), desc.clone());
            s.oracle_only(desc, true);
            return;
        }
    };
    let mut problems: Vec<String> = vec![];
    // ---- region 1: `impl Template {` .. `enum TemplatePart` (parser, from_str, set_tab_width,
    //      TemplateError + its Display/Error impls)
    match (src.find("\nimpl Template {"), src.find("\nenum TemplatePart")) {
        (Some(a), Some(b)) if a < b => {
            let first_line = src[..a].matches('\n').count() + 1;
            let region = strip_literals(&src[a..b]);
            for call in PARTIAL_CALLS {
                let ls = lines_where(&region, first_line, |l| l.contains(call));
                if !ls.is_empty() {
                    problems.push(format!("`{call}` at style.rs lines {ls:?}"));
                }
            }
            let ls = lines_where(&region, first_line, has_index_expr);
            if !ls.is_empty() {
                problems.push(format!("index/slice expression at style.rs lines {ls:?}"));
            }
            let ls = lines_where(&region, first_line, has_arith);
            if !ls.is_empty() {
                problems.push(format!("arithmetic operator at style.rs lines {ls:?}"));
            }
            let ls = lines_where(&region, first_line, has_int_cast);
            if !ls.is_empty() {
                problems.push(format!("`as` cast at style.rs lines {ls:?}"));
            }
            // the partial operations the model knows, and their consumers
            let flat: String = region.split_whitespace().collect::<Vec<_>>().join(" ");
            if count(&flat, ".parse") != 1 || count(&flat, "buf.parse() .map_err(|_| TemplateError { next: c, state })?") != 1 {
                problems.push("the u16 parse is no longer the single `buf.parse().map_err(|_| TemplateError { next: c, state })?`".into());
            }
            let lm = count(&flat, "last_mut");
            let lm_if_let = count(&flat, "if let Some(TemplatePart::Placeholder {");
            if lm != 5 || lm_if_let != 5 || count(&flat, "}) = parts.last_mut() {") != 5 {
                problems.push(format!("`parts.last_mut()` occurs {lm} times, {lm_if_let} `if let Some(TemplatePart::Placeholder {{` (model: 5, all under `if let`)"));
            }
            if count(&flat, "Style::from_dotted_str(&buf)") != 2 || count(&flat, "from_dotted_str") != 2 {
                problems.push("Style::from_dotted_str is no longer called exactly twice on `&buf`".into());
            }
        }
        _ => problems.push("cannot locate `impl Template {` .. `enum TemplatePart` in style.rs".into()),
    }
    // ---- region 2: the two public entry points, compared as text
    let flat_all: String = strip_literals(&src).split_whitespace().collect::<Vec<_>>().join(" ");
    for want in [
        "pub fn with_template(template: &str) -> Result<Self, TemplateError> { Ok(Self::new(Template::from_str(template)?)) }",
        "pub fn template(mut self, s: &str) -> Result<Self, TemplateError> { self.template = Template::from_str(s)?; Ok(self) }",
        "fn from_str(s: &str) -> Result<Self, TemplateError> { Self::from_str_with_tab_width(s, DEFAULT_TAB_WIDTH) }",
    ] {
        if count(&flat_all, want) != 1 {
            problems.push(format!("entry point changed, expected `{want}`"));
        }
    }
    if !problems.is_empty() {
        s.fail(
            "source-partial-operation-inventory",
            format!("the code behind with_template/template contains operations the model does not account for: {}", problems.join("; ")),
            desc.clone(),
        );
    }
    s.oracle_only(desc, true);
}

// ------------------------------------------------------------------ generators
fn gen_value(r: &mut Rng, idx: usize) -> String {
    match r.below(6) {
        0 => String::new(),
        1 => format!("<{idx}>"),
        2 => format!("V{idx}"),
        3 => "abcdefghij"[..r.range(1, 10) as usize].to_string() + &idx.to_string(),
        4 => "x".into(),
        _ => format!("[{}~{}]", idx, "#".repeat(r.below(12) as usize)),
    }
}

/// env: every crate-known candidate key is overridden (except "bar" when bar0), others 3 in 4.
fn gen_env(r: &mut Rng, t: &str, bar0: bool) -> BTreeMap<String, String> {
    let mut env = BTreeMap::new();
    for (i, k) in key_candidates(t).into_iter().enumerate() {
        let builtin = BUILTIN.contains(&k.as_str());
        if (k == "bar" && bar0) || (!builtin && r.chance(1, 4)) {
            continue;
        }
        env.insert(k, gen_value(r, i));
    }
    env
}

const LIT_ALPHA: [&str; 30] = [
    "a", "b", "x", "y", " ", " ", "\t", "\"", ":", ",", "[", "]", "!", "/", ".", "<", "^", ">", "0", "7", "é", "日", "\u{1b}",
    "foo", "\"bar\": ", "msg", "%", "\r", "\u{c}", "\u{0}",
];

fn gen_lit(r: &mut Rng) -> String {
    let n = r.range(1, 4);
    (0..n).map(|_| *r.pick(&LIT_ALPHA)).collect()
}

fn gen_key(r: &mut Rng) -> String {
    match r.below(10) {
        0..=2 => r.pick(&BUILTIN).to_string(),
        3 => "bar".into(),
        4 => r.pick(&["foo", "k", "k1", "msg!", "a{b", "é", "日本", "x.y", "a/b", "1", "<", "!", "a\u{b}b", "K\u{0}"]).to_string(),
        _ => {
            let n = r.range(1, 4);
            let mut k = String::new();
            for j in 0..n {
                loop {
                    let c = *r.pick(&['a', 'b', 'z', '_', '0', '9', '!', '.', '/', '<', '{', '"', 'é', '日', '\u{b}', '\u{85}', '\u{a0}', '-']);
                    if j == 0 && c == '{' {
                        continue;
                    }
                    k.push(c);
                    break;
                }
            }
            k
        }
    }
}

const WIDTHS: [&str; 22] = [
    "", "", "0", "1", "2", "5", "9", "12", "007", "40", "255", "256", "1000", "65535", "065535", "0000000000000000000065535",
    "65536", "65537", "99999", "4294967296", "18446744073709551616", "0000000000000000000000100",
];
// "on", "on_", "on_é", "oné", "on_256" ...: the neighbourhood of `on_c[3..]` in console's
// Style::from_dotted_str (the one slice in the call tree of with_template, model: str_from 3)
const STYLES: [&str; 24] = [
    "red", "bold.blue", "on_red", "123", "on_17", "", "x", "red.", "bright.green", "Red", "a.b", "red.on_blue.bold", "256", "on_",
    "dim.underlined", "blink.reverse.hidden.strikethrough", "on", "on_é", "oné", "on_256", "on_-1", "o", "on_\u{10ffff}.on_9", "é.on_",
];

fn gen_style_str(r: &mut Rng, alt: bool) -> String {
    if r.chance(3, 4) {
        r.pick(&STYLES).to_string()
    } else {
        let n = r.range(0, 5);
        (0..n)
            .map(|_| *r.pick(&['r', 'e', 'd', '.', '{', ':', '!', '1', ' ', '\n', '\t', 'é', if alt { '/' } else { '.' }]))
            .collect()
    }
}

fn gen_fmt(r: &mut Rng, small: bool) -> Fmt {
    let width = if small {
        r.pick(&["", "0", "1", "3", "5", "12", "007", "20"]).to_string()
    } else if r.chance(1, 8) {
        // random digit run of length 1..25
        let n = r.range(1, 25);
        (0..n).map(|_| char::from(b'0' + r.below(10) as u8)).collect()
    } else {
        r.pick(&WIDTHS).to_string()
    };
    Fmt {
        align: match r.below(4) {
            0 => None,
            1 => Some('<'),
            2 => Some('^'),
            _ => Some('>'),
        },
        width,
        trunc: r.chance(1, 3),
        style: match r.below(4) {
            0 | 1 => None,
            2 => Some((gen_style_str(r, false), None)),
            _ => Some((gen_style_str(r, false), Some(gen_style_str(r, true)))),
        },
    }
}

fn gen_ast(r: &mut Rng, bar0: bool) -> Vec<Item> {
    let n = if r.chance(1, 8) { r.below(3) } else { r.range(1, 9) };
    let mut t = vec![];
    for _ in 0..n {
        t.push(match r.below(16) {
            0..=3 => Item::Lit(gen_lit(r)),
            4 => Item::EscOpen,
            5 => Item::EscClose,
            6..=8 => Item::BraceWs(*r.pick(&WS)),
            9 => Item::Newline,
            10 | 11 => Item::Ph(gen_key(r), None),
            _ => Item::Ph(gen_key(r), Some(gen_fmt(r, bar0))),
        });
    }
    t
}

fn ast_case(r: &mut Rng, t: Vec<Item>, bar0: bool) -> Case {
    let mut template = String::new();
    for i in &t {
        print_item(i, &mut template);
    }
    let overflow = t.iter().any(|i| matches!(i, Item::Ph(_, Some(f)) if width_value(&f.width).is_none()));
    let env = gen_env(r, &template, bar0);
    Case {
        template,
        ast: Some(t),
        env,
        tw: *r.pick(&[8usize, 8, 8, 0, 1, 2, 4]),
        bar0,
        via_template: r.chance(1, 4),
        overflow,
    }
}

const JUNK: [&str; 40] = [
    "{", "{", "{", "}", "}", ":", "!", ".", "/", "<", "^", ">", " ", "\t", "\n", "\r", "\u{c}", "\u{b}", "0", "1", "5", "9", "65535",
    "65536", "a", "k", "msg", "bar", "é", "日", "\u{1F600}", "\u{0}", "\u{1b}", "{{", "}}", "{k", ":<", ".red", "/blue", "\u{a0}",
];

fn gen_junk(r: &mut Rng) -> String {
    let n = if r.chance(1, 10) { r.below(3) } else { r.range(1, 14) };
    let mut s = String::new();
    for _ in 0..n {
        if r.chance(1, 12) {
            let k = r.range(1, 25);
            for _ in 0..k {
                s.push(char::from(b'0' + r.below(10) as u8));
            }
        } else if r.chance(1, 15) {
            // arbitrary scalar value
            loop {
                if let Some(c) = char::from_u32(r.below(0x110000) as u32) {
                    s.push(c);
                    break;
                }
            }
        } else {
            s.push_str(*r.pick(&JUNK[..]));
        }
    }
    s
}

fn junk_case(r: &mut Rng, template: String) -> Case {
    // widths of 4+ digits make 10^4-column lines: keep the built-in bar out of those
    let bar0 = r.chance(1, 3) && !template.as_bytes().windows(4).any(|w| w.iter().all(|b| b.is_ascii_digit()));
    let env = gen_env(r, &template, bar0);
    Case { template, ast: None, env, tw: *r.pick(&[8usize, 8, 0, 3]), bar0, via_template: r.chance(1, 4), overflow: false }
}

fn lit(s: &str) -> Item {
    Item::Lit(s.to_string())
}
fn phk(k: &str) -> Item {
    Item::Ph(k.to_string(), None)
}
fn phf(k: &str, align: Option<char>, width: &str, trunc: bool, style: Option<(&str, Option<&str>)>) -> Item {
    Item::Ph(
        k.to_string(),
        Some(Fmt { align, width: width.to_string(), trunc, style: style.map(|(s, a)| (s.to_string(), a.map(|a| a.to_string()))) }),
    )
}

fn main() {
    let a = args();
    console::set_colors_enabled(true);
    let header = "From IndModel Require Import Base Template.\nOpen Scope N_scope.\n";
    let mut s = Session::new(&a, "C10", header, "tmpl_case", "tmpl_check");
    s.rule = "two streams through ProgressStyle::with_template / ProgressStyle::template and a bar drawn on a recording TermLike, every key-looking name overridden with_key by a marker value: (i) ASTs of the documented grammar (literals adjacent to braces, `{`+whitespace incl. newline, escapes, placeholders with every combination of align/width/!/style/alt, widths 0..2^64 incl. 65535/65536 and 25-digit runs) printed and compared with an independent rendering of the AST; (ii) junk strings over the meta-characters, digit runs, white-space, multibyte and arbitrary scalars (Ok/Err/panic class + rendering vs the model). non-trivial = the template contains a brace; distinct = distinct (template, env, tab width) text".into();
    let mut r = Rng::new(a.seed);
    source_inventory(&mut s);

    // ---- corpus: minimised past failures and boundary cases (grammar ASTs)
    let corpus: Vec<Vec<Item>> = vec![
        vec![phf("bar", None, "65536", false, None)],                       // D2: used to panic
        vec![phf("bar", None, "65535", false, None)],
        vec![lit("x"), Item::BraceWs(' '), lit("y")],                       // D3: used to render "{x y"
        vec![Item::BraceWs('\n')],                                          // F-B: used to add an empty line
        vec![lit("a"), Item::Newline],
        vec![Item::BraceWs('\n'), lit("abc")],
        vec![phk("k"), Item::BraceWs('\n'), phk("unknown")],
        vec![lit("abc"), Item::Newline, Item::Newline],
        vec![Item::Newline],
        vec![],
        vec![Item::EscOpen, lit(" "), phk("foo"), lit(" "), phk("bar"), lit(" "), Item::EscClose],
        vec![Item::BraceWs(' '), lit("\"foo\": \""), phk("foo"), lit("\", \"bar\": "), phk("bar"), lit(" "), Item::EscClose],
        vec![Item::EscOpen, Item::EscOpen, phk("k"), Item::EscClose, Item::EscClose],
        vec![Item::EscOpen, phk("k"), Item::EscClose],
        vec![phf("k", Some('^'), "7", false, None), lit("|")],
        vec![phf("k", Some('>'), "2", true, None), lit("|")],
        vec![phf("k", Some('^'), "2", true, None), lit("|")],
        vec![phf("k", None, "0005", false, Some(("red", Some("blue")))), lit("|")],
        vec![phf("bar", None, "5", false, Some(("red", Some("blue")))), lit("|")],
        vec![phf("bar", None, "", false, Some(("", Some("on_17")))), lit("|")],
        vec![phf("bar", None, "0", false, Some(("bold", Some("green"))))],
        vec![phf("k", None, "", false, None)],
        vec![phf("k", None, "", true, Some(("", Some(""))))],
        vec![phk("msg!"), phk("a{b")],
        vec![lit("\t|"), Item::BraceWs('\t'), lit("|")],
        vec![phf("zz", Some('>'), "3", false, None), lit("|")],              // unknown key: padded nothing
        vec![phf("k", None, "0000000000000000000065535", true, None)],
        vec![phf("k", None, "18446744073709551616", false, Some(("red", None)))],
        vec![phf("k", None, "12", false, Some(("a\nb{", Some("c/d\n"))))],
    ];
    for t in corpus {
        let bar0 = t.iter().any(|i| matches!(i, Item::Ph(k, Some(f)) if k == "bar" && f.width.len() < 4));
        let mut c = ast_case(&mut r, t, bar0);
        if !c.env.contains_key("k") && c.template.contains("{k") {
            c.env.insert("k".into(), "<K>".into());
        }
        s.count("stream:corpus");
        run_case(&mut s, &c);
    }
    // ---- corpus: strings outside the grammar
    for t in [
        "a}", "a{", "{k", "{}", "{:}", "}x", "{k:5!3}|", "{k:<!5}|", "{k:!<}", "{k:5<}", "{k!}|", "a{k\nb", "a{k b", "{k:5", "{k:.red",
        "{k:.red/", "{ \"foo\": \"{foo}\", \"bar\": {bar} }", "{{ {foo} {bar} }}", "{k:+5}", "{k:5.}", "{k:/}", "{k::}", "}}}",
        "{{{", "{\u{b}}", "{\u{85}k}", "{k:\u{663}}", "{k:٣}", "{k:99999999999999999999999999.red}", "{k:65536.red}", "{k:!65536}",
    ] {
        let c = junk_case(&mut r, t.to_string());
        s.count("stream:corpus");
        run_case(&mut s, &c);
    }

    let (n_ast, n_junk) = if a.thorough { (24_000, 12_000) } else if a.extended { (16_000, 8_000) } else { (1_700, 900) };
    for _ in 0..n_ast {
        let bar0 = r.chance(1, 3);
        let t = gen_ast(&mut r, bar0);
        for i in &t {
            s.count(match i {
                Item::Lit(_) => "item:Lit",
                Item::EscOpen => "item:EscOpen",
                Item::EscClose => "item:EscClose",
                Item::BraceWs('\n') => "item:BraceWs-newline",
                Item::BraceWs(_) => "item:BraceWs",
                Item::Newline => "item:Newline",
                Item::Ph(_, None) => "item:Ph",
                Item::Ph(_, Some(_)) => "item:Ph-fmt",
            });
            if let Item::Ph(_, Some(f)) = i {
                s.count(match width_value(&f.width) {
                    Some(None) => "width:none",
                    Some(Some(0)) => "width:0",
                    Some(Some(65535)) => "width:65535",
                    Some(Some(w)) if w < 256 => "width:1..255",
                    Some(Some(_)) => "width:256..65534",
                    None => "width:>=65536",
                });
                if f.width.len() > 5 {
                    s.count("width:digit-run>5");
                }
            }
        }
        if t.windows(2).any(|w| matches!(w[1], Item::BraceWs(_)) && matches!(w[0], Item::Lit(_) | Item::EscOpen | Item::EscClose)) {
            s.count("adjacency:text-before-brace-ws");
        }
        if t.windows(2).any(|w| matches!(w[1], Item::Ph(..)) && matches!(w[0], Item::Lit(_) | Item::EscOpen | Item::EscClose)) {
            s.count("adjacency:text-before-placeholder");
        }
        let c = ast_case(&mut r, t, bar0);
        s.count("stream:grammar");
        run_case(&mut s, &c);
    }
    for _ in 0..n_junk {
        let t = gen_junk(&mut r);
        let c = junk_case(&mut r, t);
        s.count("stream:junk");
        run_case(&mut s, &c);
    }
    s.finish();
}
