//! C15 - human-readable formatters: correspondence with model/Fmt.v + direct oracle.
//!
//! Every formatter call goes through `catch`; a case carries the input and the observed string
//! (or the fact that the call panicked) to Coq, where `fmt_check` recomputes it with the model.
//! The oracle below is an independent statement of the property: it parses the printed string
//! back and compares it with the input using exact integer arithmetic (u128/i128), never by
//! re-running the formatting algorithm of src/format.rs.
use indicatif::{
    BinaryBytes, DecimalBytes, FormattedDuration, HumanBytes, HumanCount, HumanDuration,
    HumanFloatCount,
};
use std::time::Duration;
use verif_harness::*;

const NS: u128 = 1_000_000_000;
/// (seconds, name, alt) - the documented unit table (docs of HumanDuration), restated here
const UNITS: [(u64, &str, &str); 6] = [
    (365 * 24 * 3600, "year", "y"),
    (7 * 24 * 3600, "week", "w"),
    (24 * 3600, "day", "d"),
    (3600, "hour", "h"),
    (60, "minute", "m"),
    (1, "second", "s"),
];

#[derive(Clone, Debug)]
enum Case {
    Count(u64),
    FDur(u64, u32),
    HDur(u64, u32, bool),
    Bytes(u8, u64), // 0 HumanBytes 1 DecimalBytes 2 BinaryBytes
    Float(Option<usize>, u64),
}

impl Case {
    fn coq(&self) -> String {
        match self {
            Case::Count(n) => format!("CCount {n}"),
            Case::FDur(s, n) => format!("CFDur {s} {n}"),
            Case::HDur(s, n, a) => format!("CHDur {s} {n} {}", cbool(*a)),
            Case::Bytes(k, n) => format!("CBytes {k} {n}"),
            Case::Float(p, b) => format!("CFloat {} {b}", copt(p.map(|x| x.to_string()))),
        }
    }
    fn desc(&self) -> String {
        match self {
            Case::Count(n) => format!("HumanCount({n})"),
            Case::FDur(s, n) => format!("FormattedDuration(Duration::new({s},{n}))"),
            Case::HDur(s, n, a) => format!(
                "HumanDuration(Duration::new({s},{n})) {}",
                if *a { "{:#}" } else { "{}" }
            ),
            Case::Bytes(k, n) => format!("{}({n})", ["HumanBytes", "DecimalBytes", "BinaryBytes"][*k as usize]),
            Case::Float(p, b) => format!(
                "HumanFloatCount(f64::from_bits({b:#018x})={:e}) precision={:?}",
                f64::from_bits(*b),
                p
            ),
        }
    }
    fn run(&self) -> Result<String, String> {
        match self.clone() {
            Case::Count(n) => catch(move || format!("{}", HumanCount(n))),
            Case::FDur(s, n) => catch(move || format!("{}", FormattedDuration(Duration::new(s, n)))),
            Case::HDur(s, n, a) => catch(move || {
                let d = HumanDuration(Duration::new(s, n));
                if a {
                    format!("{d:#}")
                } else {
                    format!("{d}")
                }
            }),
            Case::Bytes(0, n) => catch(move || format!("{}", HumanBytes(n))),
            Case::Bytes(1, n) => catch(move || format!("{}", DecimalBytes(n))),
            Case::Bytes(_, n) => catch(move || format!("{}", BinaryBytes(n))),
            Case::Float(p, b) => catch(move || {
                let x = HumanFloatCount(f64::from_bits(b));
                match p {
                    Some(p) => format!("{:.*}", p, x),
                    None => format!("{x}"),
                }
            }),
        }
    }
}

// ------------------------------------------------------------------ oracle helpers
fn all_digits(s: &str) -> bool {
    !s.is_empty() && s.bytes().all(|c| c.is_ascii_digit())
}

/// commas exactly at every fourth position counted from the right, nothing else but digits
fn grouping_ok(s: &str) -> bool {
    if s.is_empty() {
        return false;
    }
    let b = s.as_bytes();
    let n = b.len();
    for (i, &c) in b.iter().rev().enumerate() {
        let want_comma = i % 4 == 3;
        if want_comma != (c == b',') || (!want_comma && !c.is_ascii_digit()) {
            return false;
        }
    }
    b[0] != b',' && n > 0
}

/// reference grouping, written differently from the implementation: chunks of three from the right
fn group_ref(digits: &str) -> String {
    let b: Vec<char> = digits.chars().collect();
    let mut chunks: Vec<String> = b.rchunks(3).map(|c| c.iter().collect()).collect();
    chunks.reverse();
    chunks.join(",")
}

fn oracle_count(n: u64, out: &str) -> Option<(&'static str, String)> {
    let stripped: String = out.chars().filter(|&c| c != ',').collect();
    if stripped != n.to_string() {
        return Some(("count-digits", format!("{out:?} without commas is not the numeral of {n}")));
    }
    if !grouping_ok(out) {
        return Some(("count-commas", format!("{out:?}: commas are not exactly before every group of three")));
    }
    None
}

fn oracle_fdur(secs: u64, out: &str) -> Option<(&'static str, String)> {
    let (days, rest) = match out.split_once("d ") {
        Some((d, r)) => {
            if !all_digits(d) || d.starts_with('0') {
                return Some(("fdur-shape", format!("{out:?}: bad day field")));
            }
            (d.parse::<u128>().unwrap(), r)
        }
        None => (0, out),
    };
    let f: Vec<&str> = rest.split(':').collect();
    if f.len() != 3 || f.iter().any(|x| x.len() != 2 || !all_digits(x)) {
        return Some(("fdur-shape", format!("{out:?} is not [Dd ]HH:MM:SS")));
    }
    let (h, m, s): (u128, u128, u128) = (f[0].parse().unwrap(), f[1].parse().unwrap(), f[2].parse().unwrap());
    if h >= 24 || m >= 60 || s >= 60 {
        return Some(("fdur-range", format!("{out:?}: field out of range")));
    }
    if ((days * 24 + h) * 60 + m) * 60 + s != secs as u128 {
        return Some(("fdur-value", format!("{out:?} does not denote {secs} s")));
    }
    if (days > 0) != out.contains('d') {
        return Some(("fdur-shape", format!("{out:?}: day part must be present iff days > 0")));
    }
    None
}

/// parses the output of HumanDuration: (count, unit index)
fn parse_hd(out: &str, alt: bool) -> Option<(u128, usize)> {
    let cut = out.find(|c: char| !c.is_ascii_digit())?;
    let (num, rest) = out.split_at(cut);
    if !all_digits(num) || (num.len() > 1 && num.starts_with('0')) {
        return None;
    }
    let t: u128 = num.parse().ok()?;
    for (i, (_, name, a)) in UNITS.iter().enumerate() {
        if alt {
            if rest == *a {
                return Some((t, i));
            }
        } else {
            let want = if t == 1 { format!(" {name}") } else { format!(" {name}s") };
            if rest == want {
                return Some((t, i));
            }
        }
    }
    None
}

/// the stated rule: unit i is used from (1.5 unit_i - half of the next smaller unit) upwards
fn expected_unit(d: u128) -> usize {
    for i in 0..5 {
        let cur = UNITS[i].0 as u128 * NS;
        let next = UNITS[i + 1].0 as u128 * NS;
        // d >= 1.5 cur - next/2   <=>   2 d + next >= 3 cur
        if 2 * d + next >= 3 * cur {
            return i;
        }
    }
    5
}

fn oracle_hdur(secs: u64, nanos: u32, alt: bool, out: &str) -> Result<(u128, usize), (&'static str, String)> {
    let d = secs as u128 * NS + nanos as u128;
    let (t, idx) = match parse_hd(out, alt) {
        Some(x) => x,
        None => return Err(("hd-shape", format!("{out:?} is not '<n> <unit>[s]' / '<n><u>' with the plural rule"))),
    };
    if idx < 5 && t < 2 {
        return Err(("hd-one-unit", format!("{out:?}: '{t} unit' above seconds")));
    }
    let want_idx = expected_unit(d);
    if idx != want_idx {
        return Err(("hd-unit", format!("{out:?}: unit {} expected by the 1.5-unit rule", UNITS[want_idx].1)));
    }
    let u = UNITS[idx].0 as u128 * NS;
    // nearest count, ties up: floor((2d + u) / 2u)
    let exact = (2 * d + u) / (2 * u);
    let want = if idx < 5 { exact.max(2) } else { exact };
    if t != want {
        // binary64 rounding of as_secs_f64 and of the quotient: the count may be the other
        // neighbour only if d is within 2^-50 (relative) of the half-way point between them
        let lo = t.min(want);
        let hi = t.max(want);
        let mid2 = (2 * lo + 1) * u; // twice the half-way point between lo and lo+1
        let dist2 = if 2 * d > mid2 { 2 * d - mid2 } else { mid2 - 2 * d };
        let tol2 = (2 * d) >> 50;
        if hi - lo != 1 || dist2 > tol2 || (idx < 5 && t < 2) {
            return Err(("hd-nearest", format!("{out:?}: nearest count of {} is {want}", UNITS[idx].1)));
        }
    }
    Ok((t, idx))
}

fn oracle_bytes(kind: u8, n: u64, out: &str) -> Option<(&'static str, String)> {
    let binary = kind != 1;
    let kilo: u128 = if binary { 1024 } else { 1000 };
    let syms: [&str; 8] = if binary {
        ["Ki", "Mi", "Gi", "Ti", "Pi", "Ei", "Zi", "Yi"]
    } else {
        ["k", "M", "G", "T", "P", "E", "Z", "Y"]
    };
    let (val, unit) = match out.split_once(' ') {
        Some(x) => x,
        None => return Some(("bytes-shape", format!("{out:?}: no space"))),
    };
    // the largest fitting prefix of the value (as the f64 it is converted to; exact in u128)
    let x = (n as f64) as u128;
    let fit = |v: u128| {
        let mut k = 0;
        let mut p = kilo;
        while k < 8 && p <= v {
            k += 1;
            p *= kilo;
        }
        k
    };
    // exact for 1024 and for 1000: the repeated rounded division by 1000 never moves the value
    // across a power of 1000 (C15_bytes_shape proves base^k <= x < base^(k+1) for both bases)
    let (k_lo, k_hi) = (fit(x), fit(x));
    if unit == "B" {
        if !all_digits(val) || val != n.to_string() {
            return Some(("bytes-shape", format!("{out:?}: plain bytes must be the whole number {n}")));
        }
        if k_lo != 0 {
            return Some(("bytes-prefix", format!("{out:?}: {n} >= {kilo} needs a prefix")));
        }
        return None;
    }
    let k = match syms.iter().position(|s| format!("{s}B") == unit) {
        Some(i) => i + 1,
        None => return Some(("bytes-shape", format!("{out:?}: unknown unit"))),
    };
    if k < k_lo || k > k_hi {
        return Some(("bytes-prefix", format!("{out:?}: not the largest fitting prefix for {n}")));
    }
    let (ip, fp) = match val.split_once('.') {
        Some(x) => x,
        None => return Some(("bytes-shape", format!("{out:?}: no decimals"))),
    };
    if !all_digits(ip) || !all_digits(fp) || fp.len() != 2 || (ip.len() > 1 && ip.starts_with('0')) {
        return Some(("bytes-shape", format!("{out:?}: value is not <int>.<two digits>")));
    }
    let v: i128 = ip.parse::<i128>().unwrap() * 100 + fp.parse::<i128>().unwrap();
    let scale: i128 = (kilo as i128).pow(k as u32);
    // v hundredths = x / kilo^k rounded to the nearest hundredth, x = n as f64 (an integer):
    // 1024: |v * kilo^k - 100 x| <= kilo^k / 2 exactly (the divisions are exact), ties to even;
    // 1000: up to 2^-32 of a hundredth (k <= 6 rounded divisions)       [C15_bytes_shape]
    let err = (v * scale - 100 * x as i128).abs();
    let bad = if binary {
        2 * err > scale || (2 * err == scale && v % 2 != 0)
    } else {
        (err << 32) > ((1i128 << 31) + 1) * scale
    };
    if bad {
        return Some(("bytes-value", format!("{out:?} is not {x} (= {n} as f64) / {kilo}^{k} rounded to two decimals")));
    }
    if v < 100 || v > 100 * kilo as i128 {
        return Some(("bytes-value", format!("{out:?}: value outside 1.00 ..= {kilo}.00")));
    }
    None
}

fn oracle_float(p: Option<usize>, bits: u64, out: &str) -> Option<(&'static str, String)> {
    let x = f64::from_bits(bits);
    let prec = p.unwrap_or(4);
    if x.is_nan() {
        return if out == "NaN" { None } else { Some(("float-nonfinite", format!("NaN printed as {out:?}"))) };
    }
    let neg = x.is_sign_negative();
    let (sign, body) = match out.strip_prefix('-') {
        Some(b) => (true, b),
        None => (false, out),
    };
    if sign != neg {
        return Some(("float-sign", format!("{out:?}: sign of {x:e}")));
    }
    if x.is_infinite() {
        return if body == "inf" { None } else { Some(("float-nonfinite", format!("{x} printed as {out:?}"))) };
    }
    // reference: std's fixed-precision decimal of |x| (checked against exact arithmetic by the Coq model)
    let r = format!("{:.*}", prec, x.abs());
    let (ri, rf) = match r.split_once('.') {
        Some((a, b)) => (a.to_string(), b.trim_end_matches('0').to_string()),
        None => (r.clone(), String::new()),
    };
    let (oi, of) = match body.split_once('.') {
        Some((a, b)) => (a, b),
        None => (body, ""),
    };
    if !grouping_ok(oi) {
        return Some(("float-grouping", format!("{out:?}: commas are not exactly before every group of three digits")));
    }
    let stripped: String = oi.chars().filter(|&c| c != ',').collect();
    if stripped != ri || oi != group_ref(&ri) {
        return Some(("float-digits", format!("{out:?}: integer part should be {ri}")));
    }
    if body.contains('.') && (of.is_empty() || of.ends_with('0')) {
        return Some(("float-trim", format!("{out:?}: trailing zeros / bare point")));
    }
    if of != rf {
        return Some(("float-digits", format!("{out:?}: fraction should be {rf:?}")));
    }
    // parse back: within half a unit of the last printed place (plus one ulp of slack)
    let back: f64 = format!("{stripped}.{}", if of.is_empty() { "0" } else { of }).parse().unwrap();
    let tol = 0.5 * 10f64.powi(-(prec as i32)) * (1.0 + 1e-9) + x.abs() * 2f64.powi(-51);
    if back.is_finite() && (back - x.abs()).abs() > tol {
        return Some(("float-roundtrip", format!("{out:?} reads back as {back:e}, input {x:e}")));
    }
    None
}

// ------------------------------------------------------------------ running one case
struct Ctx {
    s: Session,
    /// (total ns, count * unit ns, description) of every HumanDuration case, for the monotonicity oracle
    hd: Vec<(u128, u128, String)>,
    /// oracle-only mode: do not send the case to Coq
    oracle_only: bool,
}

fn run(cx: &mut Ctx, c: Case, tag: &str) {
    let desc = c.desc();
    cx.s.count(tag);
    let res = c.run();
    let mut nontrivial = true;
    match (&c, &res) {
        (_, Err(e)) => {
            let class = match c {
                Case::Count(_) => "panic-count",
                Case::FDur(..) => "panic-fduration",
                Case::HDur(..) => "panic-hduration",
                Case::Bytes(..) => "panic-bytes",
                Case::Float(..) => "panic-float",
            };
            cx.s.fail(class, format!("panicked: {e}"), desc.clone());
        }
        (Case::Count(n), Ok(out)) => {
            nontrivial = *n >= 1000;
            if let Some((cl, d)) = oracle_count(*n, out) {
                cx.s.fail(cl, d, desc.clone());
            }
        }
        (Case::FDur(s, _), Ok(out)) => {
            nontrivial = *s >= 60;
            if let Some((cl, d)) = oracle_fdur(*s, out) {
                cx.s.fail(cl, d, desc.clone());
            }
        }
        (Case::HDur(s, n, a), Ok(out)) => match oracle_hdur(*s, *n, *a, out) {
            Ok((t, idx)) => {
                let d = *s as u128 * NS + *n as u128;
                cx.hd.push((d, t * UNITS[idx].0 as u128 * NS, desc.clone()));
                cx.s.count(&format!("hd-unit:{}", UNITS[idx].1));
            }
            Err((cl, d)) => cx.s.fail(cl, d, desc.clone()),
        },
        (Case::Bytes(k, n), Ok(out)) => {
            nontrivial = *n >= 1000;
            if let Some((cl, d)) = oracle_bytes(*k, *n, out) {
                cx.s.fail(cl, d, desc.clone());
            }
        }
        (Case::Float(p, b), Ok(out)) => {
            cx.s.count(&format!("prec:{}", p.map(|x| x.to_string()).unwrap_or("default".into())));
            if let Some((cl, d)) = oracle_float(*p, *b, out) {
                cx.s.fail(cl, d, desc.clone());
            }
        }
    }
    if cx.oracle_only {
        cx.s.oracle_only(desc, nontrivial);
    } else {
        let obs = copt(res.ok().map(|o| cstr(&o)));
        cx.s.case(format!("({}, {})", c.coq(), obs), desc, nontrivial);
    }
}

// ------------------------------------------------------------------ generators
fn u64_boundaries() -> Vec<(u64, &'static str)> {
    let mut v: Vec<(u64, &'static str)> = vec![];
    for n in 0..=12u64 {
        v.push((n, "u64:small"));
    }
    let mut p: u64 = 1;
    for _ in 1..=19 {
        p *= 10;
        for x in [p - 1, p, p + 1] {
            v.push((x, "u64:pow10+-1"));
        }
    }
    for k in 1..=63u32 {
        let p = 1u64 << k;
        for x in [p - 1, p, p + 1] {
            v.push((x, if k % 10 == 0 { "u64:pow1024+-1" } else { "u64:pow2+-1" }));
        }
    }
    // two-decimal rounding boundaries just below the next prefix: 999.995 k, 1023.995 Ki, ...
    for k in 1..=6u32 {
        let d = 1000u128.pow(k);
        let b = 1024u128.pow(k);
        for c in [d * 999_995 / 1000, d * 1000 - 1, b * 1024 - b / 200, b * 1024 - 1, d * 1005 / 1000, b * 1125 / 1000, b * 1375 / 1000] {
            for x in [c - 1, c, c + 1] {
                if x <= u64::MAX as u128 {
                    v.push((x as u64, "u64:two-decimal-boundary"));
                }
            }
        }
    }
    for x in [
        (1u64 << 53) + 2,
        (1 << 53) + 3,
        (1 << 54) + 2,
        (1 << 54) + 6,
        u64::MAX,
        u64::MAX - 1,
        u64::MAX - 1023,
        u64::MAX - 1024,
        u64::MAX - 2047,
        u64::MAX - 2048,
        1152,
        1408,
        1664,
        1920,
        1500,
        1_500_000,
        1_500_000_000_000_000,
        7654,
        1234567890,
        // the largest binary64 numbers below 1000^6 and 1024^6 and what rounds up to the powers
        999_999_999_999_999_872,
        999_999_999_999_999_935,
        999_999_999_999_999_936,
        (1 << 60) - 128,
        (1 << 60) - 65,
        (1 << 60) - 64,
        // prefix chosen before rounding to two decimals: "1024.00 KiB", "1000.00 kB"
        1_048_575,
        999_999,
        999_994,
    ] {
        v.push((x, "u64:special"));
    }
    v
}

fn rand_u64(r: &mut Rng) -> u64 {
    match r.below(4) {
        0 => r.next(),
        1 => r.next() >> r.below(64),
        2 => {
            // near a power of ten / two
            let b = if r.chance(1, 2) { 10u64.pow(r.below(20) as u32) } else { 1u64 << r.below(64) };
            let d = r.below(2000);
            if r.chance(1, 2) {
                b.saturating_add(d)
            } else {
                b.saturating_sub(d)
            }
        }
        _ => r.below(2_000_000),
    }
}

fn dur_of(ns: u128) -> Option<(u64, u32)> {
    let s = ns / NS;
    if s > u64::MAX as u128 {
        None
    } else {
        Some((s as u64, (ns % NS) as u32))
    }
}

const OFFS: [i128; 5] = [-1_000_000, -1, 0, 1, 1_000_000];

/// (n + 1/2) unit, n unit and the five switch points, each -1ms, -1ns, 0, +1ns, +1ms
fn dur_boundaries(ns_list: &[u64]) -> Vec<((u64, u32), &'static str)> {
    let mut v = vec![];
    for (i, (u, _, _)) in UNITS.iter().enumerate() {
        let u = *u as i128 * NS as i128;
        for &n in ns_list {
            for (base, tag) in [((2 * n as i128 + 1) * u / 2, "dur:half-unit+-"), (n as i128 * u, "dur:whole-unit+-")] {
                for o in OFFS {
                    if base + o >= 0 {
                        if let Some(d) = dur_of((base + o) as u128) {
                            v.push((d, tag));
                        }
                    }
                }
            }
        }
        if i < 5 {
            let next = UNITS[i + 1].0 as i128 * NS as i128;
            let t = u + u / 2 - next / 2;
            for o in OFFS {
                v.push((dur_of((t + o) as u128).unwrap(), "dur:switch-point+-"));
            }
        }
    }
    v
}

fn dur_specials() -> Vec<((u64, u32), &'static str)> {
    let mut v = vec![];
    for d in [
        (0, 0),
        (0, 1),
        (0, 499_999_999),
        (0, 500_000_000),
        (0, 999_999_999),
        (1, 499_999_999),
        (u64::MAX, 999_999_999),
        (u64::MAX, 999_999_998),
        (u64::MAX, 0),
        (u64::MAX - 1, 999_999_999),
        (1 << 53, 0),
        ((1 << 53) - 1, 999_999_999),
        ((1 << 53) + 1, 0),
        ((1 << 53) + 1, 999_999_999),
        (1 << 63, 500_000_000),
        (u64::MAX / 31_536_000 * 31_536_000, 0),
        (59, 999_999_999),
        (86399, 999_999_999),
        (90061, 5),
        (100 * 86400 - 1, 0),
        (100 * 86400, 0),
    ] {
        v.push((d, "dur:special"));
    }
    v
}

fn rand_dur(r: &mut Rng) -> (u64, u32) {
    let nanos = match r.below(4) {
        0 => 0,
        1 => *r.pick(&[1u32, 499_999_999, 500_000_000, 500_000_001, 999_999_999, 999_000_000, 1_000_000]),
        _ => r.below(1_000_000_000) as u32,
    };
    let secs = match r.below(5) {
        0 => r.below(200),
        1 => r.below(200_000),
        2 => r.below(4_000_000_000),
        3 => r.next() >> r.below(64),
        _ => {
            // near n or n+1/2 units
            let u = UNITS[r.below(6) as usize].0;
            let n = r.below(300);
            (n * u + if r.chance(1, 2) { u / 2 } else { 0 }).saturating_add(r.below(3)).saturating_sub(1)
        }
    };
    (secs, nanos)
}

fn float_specials() -> Vec<u64> {
    let mut v: Vec<u64> = vec![
        0,
        1 << 63,
        0x7ff0_0000_0000_0000,
        0xfff0_0000_0000_0000,
        0x7ff8_0000_0000_0000,
        0xfff8_0000_0000_0000,
        0x7ff0_0000_0000_0001,
        0xffff_ffff_ffff_ffff,
        1,
        (1 << 63) | 1,
        0x000f_ffff_ffff_ffff,
        0x0010_0000_0000_0000,
        0x7fef_ffff_ffff_ffff,
        0xffef_ffff_ffff_ffff,
    ];
    for x in [
        1.0f64, -1.0, 0.5, -0.5, 1.5, 2.5, 3.5, 0.25, 0.75, 0.125, 0.1, 0.2, 0.3, -123.5, -1234.5, -12.5, 1234.7, 1234.1234321,
        42.0, 42.5, 42.500012345, 7654.321, 12345.6789, 1234567890.1234567, 999.5, 999.4999999999999, 999.49, 999999.5,
        999.99995, 0.99995, 0.00005, 0.00004999, 9.5, 99.5, 9999.5, 99999.5, 1e3, 1e6, 1e15, 1e16, 1e17, 1e21, 1e22, 1e23,
        9007199254740992.0, 9007199254740994.0, 9223372036854775808.0, 18446744073709551616.0, 1e100, 1e300, 1e-5, 1e-7,
        1e-26, 4.9e-26, 5e-26, 5.1e-26, 1e-300, f64::EPSILON, 123456789012345680.0, -0.00001, -0.4, -0.5, -0.6, -999.5,
        -999999.9999999, 100.0, 1000.0, 10000.0, 100000.0, 1000000.0, 999.0, 99.0,
    ] {
        v.push(x.to_bits());
    }
    v
}

/// a tie at precision p: odd / 2^(p+1) (the only doubles whose p-digit rounding is a tie)
fn tie(r: &mut Rng, p: usize) -> f64 {
    let top = if r.chance(1, 2) { 12 } else { 52 };
    let bitsz = 1 + r.below(top);
    let a = (r.next() >> (64 - bitsz)) | 1;
    (a as f64) * 2f64.powi(-(p as i32 + 1))
}

fn rand_float(r: &mut Rng) -> u64 {
    match r.below(6) {
        0 => r.next(), // any bit pattern
        1 => {
            // moderate exponents
            let e = 1023 - 40 + r.below(120);
            (r.below(2) << 63) | (e << 52) | (r.next() >> 12)
        }
        2 => {
            // decimal-looking
            let m = r.next() >> r.below(64);
            let x = m as f64 / 10f64.powi(r.below(12) as i32);
            (if r.chance(1, 3) { -x } else { x }).to_bits()
        }
        3 => {
            // just below a power of ten: carries into a new digit group
            let x = 10f64.powi(r.below(16) as i32) - 10f64.powi(-(r.below(8) as i32)) * (r.below(9) + 1) as f64 * 0.5;
            (if r.chance(1, 3) { -x } else { x }).to_bits()
        }
        4 => {
            // subnormals / tiny
            (r.below(2) << 63) | (r.below(3) << 52) | (r.next() >> (12 + r.below(52)))
        }
        _ => {
            // integers
            let x = (r.next() >> r.below(64)) as f64;
            (if r.chance(1, 3) { -x } else { x }).to_bits()
        }
    }
}

fn rand_prec(r: &mut Rng) -> Option<usize> {
    match r.below(8) {
        0 => None,
        1 => Some(0),
        2 => Some(25),
        _ => Some(r.below(26) as usize),
    }
}

fn main() {
    let a = args();
    let header = "From IndModel Require Import Base Fmt.\nOpen Scope N_scope.\n";
    let s = Session::new(&a, "C15", header, "(fcase * option (list N))%type", "fmt_check");
    let mut cx = Ctx { s, hd: vec![], oracle_only: false };
    cx.s.rule = "calls of the seven Display wrappers through format!: u64 at all powers of 10/2/1024 +-1, two-decimal rounding boundaries, 2^53.., u64::MAX and random of every bit length; f64 from bit patterns (specials, subnormals, exact ties odd/2^(p+1) at every precision 0..=25 and their neighbours, carries, negatives, huge) with precision default/0..=25; Durations at every (n+1/2)*unit, n*unit and the five switch points each -1ms/-1ns/0/+1ns/+1ms, Duration::MAX, 2^53 s and random; non-trivial = value >= 1000 (count/bytes), >= 60 s (FormattedDuration), every HumanDuration / float case; distinct = distinct call text".into();
    let mut r = Rng::new(a.seed);
    let big = a.thorough || a.extended;

    // ---- corpus: witnesses of the repaired defects D18/D19 (must pass now) and the crate's own examples
    for (p, x) in [(None, -123.5f64), (None, f64::NEG_INFINITY), (Some(0), 1234.7), (Some(0), -1234.7), (None, -1234567.25), (Some(0), 0.5), (Some(0), 1.5), (Some(0), 2.5), (Some(1), 0.25), (Some(25), 1234.1234321)] {
        run(&mut cx, Case::Float(p, x.to_bits()), "corpus");
    }
    for n in [0u64, 999, 1000, 999_999, 1_000_000, u64::MAX] {
        run(&mut cx, Case::Count(n), "corpus");
        for k in 0..3 {
            run(&mut cx, Case::Bytes(k, n), "corpus");
        }
    }
    run(&mut cx, Case::HDur(89, 499_000_000, false), "corpus");
    run(&mut cx, Case::HDur(89, 500_000_000, false), "corpus");
    run(&mut cx, Case::HDur(u64::MAX, 999_999_999, true), "corpus");
    run(&mut cx, Case::FDur(u64::MAX, 999_999_999), "corpus");

    // ---- u64 boundaries: HumanCount and the three byte formatters
    let ub = u64_boundaries();
    for (i, (n, tag)) in ub.iter().enumerate() {
        run(&mut cx, Case::Count(*n), tag);
        if big {
            for k in 0..3 {
                run(&mut cx, Case::Bytes(k, *n), tag);
            }
        } else {
            // HumanBytes and BinaryBytes are the same code: alternate them in the quick tier
            run(&mut cx, Case::Bytes(1, *n), tag);
            run(&mut cx, Case::Bytes(if i % 2 == 0 { 0 } else { 2 }, *n), tag);
        }
    }
    let n_rand_u = if a.thorough { 6000 } else if a.extended { 3000 } else { 150 };
    for _ in 0..n_rand_u {
        let n = rand_u64(&mut r);
        run(&mut cx, Case::Count(n), "u64:random");
        let n = rand_u64(&mut r);
        run(&mut cx, Case::Bytes(r.below(3) as u8, n), "u64:random");
    }

    // ---- durations
    for ((s_, n_), tag) in dur_specials() {
        run(&mut cx, Case::FDur(s_, n_), tag);
        run(&mut cx, Case::HDur(s_, n_, false), tag);
        run(&mut cx, Case::HDur(s_, n_, true), tag);
    }
    // FormattedDuration field boundaries
    for secs in [59u64, 60, 61, 3599, 3600, 3601, 86399, 86400, 86401, 863_999, 864_000, 8_639_999, 8_640_000, 359_999, 360_000] {
        run(&mut cx, Case::FDur(secs, 0), "fdur:field-boundary");
        run(&mut cx, Case::FDur(secs, 999_999_999), "fdur:field-boundary");
    }
    let n_fd = if a.thorough { 4000 } else if a.extended { 2000 } else { 150 };
    for _ in 0..n_fd {
        let (s_, n_) = rand_dur(&mut r);
        run(&mut cx, Case::FDur(s_, n_), "fdur:random");
    }
    // HumanDuration: correspondence on n <= 3 (quick) / n <= 100 (thorough), oracle on n <= 100 always
    let small: Vec<u64> = if big { (0..=100).collect() } else { vec![0, 1, 2, 3, 10, 77, 100] };
    for (k, ((s_, n_), tag)) in dur_boundaries(&small).into_iter().enumerate() {
        run(&mut cx, Case::HDur(s_, n_, k % 7 == 3), tag);
    }
    if !big {
        cx.oracle_only = true;
        let all: Vec<u64> = (0..=100).collect();
        for ((s_, n_), tag) in dur_boundaries(&all) {
            run(&mut cx, Case::HDur(s_, n_, false), tag);
        }
        cx.oracle_only = false;
    }
    // dense 1 ms sweep around every switch point (oracle only)
    cx.oracle_only = true;
    for i in 0..5 {
        let u = UNITS[i].0 as i128 * NS as i128;
        let next = UNITS[i + 1].0 as i128 * NS as i128;
        let t = u + u / 2 - next / 2;
        for ms in -60..=60i128 {
            let (s_, n_) = dur_of((t + ms * 1_000_000) as u128).unwrap();
            run(&mut cx, Case::HDur(s_, n_, false), "dur:switch-sweep-1ms");
        }
    }
    cx.oracle_only = false;
    let n_hd = if a.thorough { 8000 } else if a.extended { 4000 } else { 350 };
    for _ in 0..n_hd {
        let (s_, n_) = rand_dur(&mut r);
        run(&mut cx, Case::HDur(s_, n_, r.chance(1, 5)), "dur:random");
    }

    // ---- floats
    let precs: Vec<Option<usize>> = if big {
        std::iter::once(None).chain((0..=25).map(Some)).collect()
    } else {
        vec![None, Some(0), Some(1), Some(2), Some(7), Some(17), Some(25)]
    };
    for (i, b) in float_specials().into_iter().enumerate() {
        if big || i < 14 {
            for p in &precs {
                run(&mut cx, Case::Float(*p, b), "f64:special");
            }
        } else {
            // quick: three precisions per value, rotating
            for j in 0..3 {
                run(&mut cx, Case::Float(precs[(i + 2 * j) % precs.len()], b), "f64:special");
            }
        }
    }
    let per_p = if a.thorough { 40 } else if a.extended { 20 } else { 3 };
    for p in 0..=25usize {
        for _ in 0..per_p {
            let x = tie(&mut r, p);
            let x = if r.chance(1, 4) { -x } else { x };
            let b = x.to_bits();
            run(&mut cx, Case::Float(Some(p), b), "f64:exact-tie");
            run(&mut cx, Case::Float(Some(p), b + 1), "f64:tie-neighbour");
            run(&mut cx, Case::Float(Some(p), b - 1), "f64:tie-neighbour");
            if p == 4 {
                run(&mut cx, Case::Float(None, b), "f64:exact-tie");
            }
        }
    }
    let n_fl = if a.thorough { 10000 } else if a.extended { 5000 } else { 450 };
    for _ in 0..n_fl {
        let b = rand_float(&mut r);
        let p = rand_prec(&mut r);
        run(&mut cx, Case::Float(p, b), "f64:random");
    }

    // ---- monotonicity of HumanDuration over everything that was run
    cx.hd.sort();
    let mut worst: Option<String> = None;
    for w in cx.hd.windows(2) {
        if w[0].0 < w[1].0 && w[0].1 > w[1].1 && worst.is_none() {
            worst = Some(format!("{} shows {} ns but the longer {} shows {} ns", w[0].2, w[0].1, w[1].2, w[1].1));
        }
    }
    let pairs = cx.hd.len().saturating_sub(1) as u64;
    cx.s.count_n("hd-monotone-adjacent-pairs", pairs);
    if let Some(d) = worst {
        cx.s.fail("hd-monotone", d.clone(), d);
    }
    cx.s.notes.push("interpretation (docs/C15.md): the prefix is the largest one fitting the VALUE x = n as f64; the value is rounded to two decimals afterwards, so DecimalBytes(999_999) prints \"1000.00 kB\" and HumanBytes(1_048_575) \"1024.00 KiB\" (C15_bytes_shape: 100 <= q <= 100 base)".into());
    cx.s.finish();
}
