//! C11 – placeholder values reflect the bar state at draw time.
//!
//! Every case is a configuration (initial length, tick strings, tab width, custom keys, template,
//! terminal width) and a history of public `ProgressBar` calls, each preceded by an advance of the
//! mock clock.  The bar draws into a recording `Spy` terminal through
//! `ProgressDrawTarget::term_like` (no draw rate limiter), so every draw made by a call is observed
//! as one frame.  The mock clock is FROZEN during a call and while the getters are read afterwards,
//! hence the clock dependent getters (`elapsed`, `eta`, `duration`, `per_sec`) read after the call
//! are the values of the instant of the draw.
//!
//! * oracle (independent of the model): every frame must equal the documented table
//!   `key -> public formatter (public getter)` evaluated on the getters read after the call; custom
//!   keys must show the state and exactly the tick/reset events of the bar.  `{spinner}` = the
//!   current tick string with every TAB replaced by the bar's tab width in blanks (the oracle keeps
//!   the tab width from `with_tab_width` / `set_tab_width` itself); tick strings WITH TABs are
//!   generated (corpus:spinner-tab, `base_ticks`, `tab_ticks`), since /repo fix 6ff82af routes the
//!   spinner arm through `TabRewriter` (style.rs:277-279).
//! * correspondence: the same history is replayed by `Keys.v` (`keys_check`); the formatters are
//!   given to the model as a finite table computed here with the real public formatters.
use indicatif::style::ProgressTracker;
use indicatif::verif_clock::{self as vc, Instant};
use indicatif::{
    BinaryBytes, DecimalBytes, FormattedDuration, HumanBytes, HumanCount, HumanDuration,
    HumanFloatCount, ProgressBar, ProgressDrawTarget, ProgressState, ProgressStyle,
};
use std::collections::BTreeMap;
use std::fmt::Write as _;
use std::time::Duration;
use verif_harness::spy::{Spy, TOp};
use verif_harness::*;

/// the keys documented in src/lib.rs (written from the docs, compared with
/// IndGen.Constants.DOCUMENTED_KEYS by the theorem C11_doc_table_complete)
const KEYS: [&str; 28] = [
    "bar",
    "wide_bar",
    "spinner",
    "prefix",
    "msg",
    "wide_msg",
    "pos",
    "human_pos",
    "len",
    "human_len",
    "percent",
    "percent_precise",
    "bytes",
    "total_bytes",
    "decimal_bytes",
    "decimal_total_bytes",
    "binary_bytes",
    "binary_total_bytes",
    "elapsed_precise",
    "elapsed",
    "per_sec",
    "bytes_per_sec",
    "decimal_bytes_per_sec",
    "binary_bytes_per_sec",
    "eta_precise",
    "eta",
    "duration_precise",
    "duration",
];
const UNKNOWN: [&str; 4] = ["foo", "position", "Pos", "etas"];
const PROGRESS_CHARS: &str = "#>-";

#[derive(Clone, Copy, Debug, PartialEq, Eq)]
enum TKind {
    Closure,
    Logger,
    Probe,
}

#[derive(Clone, Debug)]
enum Part {
    Lit(String),
    Key(&'static str, Option<u16>),
    /// a '\n' of the template (TemplatePart::NewLine)
    NewLine,
}

#[derive(Clone, Debug)]
enum Fin {
    AndLeave,
    WithMessage(String),
    AndClear,
    Abandon,
    AbandonWithMessage(String),
}

#[derive(Clone, Debug)]
enum Op {
    Tick,
    Inc(u64),
    Dec(u64),
    SetPos(u64),
    SetLen(u64),
    IncLen(u64),
    DecLen(u64),
    UnsetLen,
    SetMessage(String),
    SetPrefix(String),
    Finish(Fin),
    ResetAll,
    ResetEta,
    ResetElapsed,
    ForceDraw,
    Update(Option<u64>, Option<u64>),
    SetTabWidth(usize),
}

#[derive(Clone, Debug)]
struct Cfg {
    len0: Option<u64>,
    ticks: Vec<String>,
    tab: usize,
    customs: Vec<(&'static str, TKind)>,
    template: Vec<Part>,
    width: u16,
    /// the texts of the history contain NUL (the marker format_state uses for a wide element):
    /// outside the domain of the oracle's frame comparison, correspondence only
    nul: bool,
}

#[derive(Clone, Copy, Debug, PartialEq, Eq)]
struct View {
    pos: u64,
    len: Option<u64>,
    fin: bool,
}

#[derive(Clone, Debug, PartialEq, Eq)]
enum Ev {
    Tick(u64, View),
    Reset(u64, View),
}

fn view(st: &ProgressState) -> View {
    View {
        pos: st.pos(),
        len: st.len(),
        fin: st.is_finished(),
    }
}

fn view_text(v: &View) -> String {
    format!(
        "{}/{}{}",
        v.pos,
        v.len.map_or("-".to_string(), |l| l.to_string()),
        if v.fin { "F" } else { "" }
    )
}

fn digest(log: &[Ev]) -> String {
    let t = log.iter().filter(|e| matches!(e, Ev::Tick(..))).count();
    let r = log.len() - t;
    let s = log.iter().rev().take_while(|e| matches!(e, Ev::Tick(..))).count();
    format!("L{t},{r},{s}")
}

// ---------------------------------------------------------------- trackers
#[derive(Clone)]
struct Logger(Shared<Vec<Ev>>);
impl ProgressTracker for Logger {
    fn clone_box(&self) -> Box<dyn ProgressTracker> {
        Box::new(self.clone())
    }
    fn tick(&mut self, st: &ProgressState, now: Instant) {
        self.0.lock().unwrap().push(Ev::Tick(now.as_ns(), view(st)));
    }
    fn reset(&mut self, st: &ProgressState, now: Instant) {
        self.0.lock().unwrap().push(Ev::Reset(now.as_ns(), view(st)));
    }
    fn write(&self, st: &ProgressState, w: &mut dyn std::fmt::Write) {
        let d = digest(&self.0.lock().unwrap());
        let _ = write!(w, "{d}\t{}", view_text(&view(st)));
    }
}

#[derive(Clone, Copy, Debug)]
struct Obs {
    fraction: f32,
    elapsed: Duration,
    eta: Duration,
    duration: Duration,
    per_sec: f64,
    view: View,
}

#[derive(Clone)]
struct Probe(Shared<Option<Obs>>);
impl ProgressTracker for Probe {
    fn clone_box(&self) -> Box<dyn ProgressTracker> {
        Box::new(self.clone())
    }
    fn tick(&mut self, _: &ProgressState, _: Instant) {}
    fn reset(&mut self, _: &ProgressState, _: Instant) {}
    fn write(&self, st: &ProgressState, _: &mut dyn std::fmt::Write) {
        *self.0.lock().unwrap() = Some(Obs {
            fraction: st.fraction(),
            elapsed: st.elapsed(),
            eta: st.eta(),
            duration: st.duration(),
            per_sec: st.per_sec(),
            view: view(st),
        });
    }
}

// ---------------------------------------------------------------- getters after a call
#[derive(Clone, Debug)]
struct G {
    pos: u64,
    len: Option<u64>,
    fin: bool,
    message: String,
    prefix: String,
    elapsed: Duration,
    eta: Duration,
    duration: Duration,
    per_sec: f64,
}

fn getters(pb: &ProgressBar) -> G {
    G {
        pos: pb.position(),
        len: pb.length(),
        fin: pb.is_finished(),
        message: pb.message(),
        prefix: pb.prefix(),
        elapsed: pb.elapsed(),
        eta: pb.eta(),
        duration: pb.duration(),
        per_sec: pb.per_sec(),
    }
}

// ---------------------------------------------------------------- the documented table (oracle)
/// "filled cells = floor(fraction * width)", a head cell while the bar is neither empty nor full,
/// background for the rest; progress chars "#>-".
fn spec_bar(fr: f32, width: usize) -> String {
    let fill = fr * width as f32;
    let filled = (fill as usize).min(width);
    let head = usize::from(fill > 0.0 && filled < width);
    let mut s = "#".repeat(filled);
    s.push_str(&">".repeat(head));
    s.push_str(&"-".repeat(width - filled - head));
    s
}

struct Table(BTreeMap<(u8, u128, u128), String>);
impl Table {
    fn add(&mut self, fid: u8, a: u128, b: u128, text: String) -> String {
        self.0.insert((fid, a, b), text.clone());
        text
    }
}

/// Value of a documented non-wide key: public formatter applied to the public getter.
/// Also records the formatter entry for the Coq model.
fn doc_key(
    key: &str,
    width: Option<u16>,
    g: &G,
    fraction: f32,
    tick: u64,
    ticks: &[String],
    tab: usize,
    t: &mut Table,
    alias_bad: &mut Option<String>,
) -> Option<String> {
    let pos = g.pos;
    // "a missing length renders as the position"
    let len = g.len.unwrap_or(g.pos);
    let ns = |d: Duration| d.as_nanos();
    let rate = g.per_sec as u64;
    let mut alias = |x: u64| {
        if HumanBytes(x).to_string() != BinaryBytes(x).to_string() {
            *alias_bad = Some(format!("HumanBytes({x}) != BinaryBytes({x})"));
        }
    };
    Some(match key {
        "pos" => pos.to_string(),
        "len" => len.to_string(),
        "human_pos" => t.add(1, pos as u128, 0, HumanCount(pos).to_string()),
        "human_len" => t.add(1, len as u128, 0, HumanCount(len).to_string()),
        "bytes" => {
            alias(pos);
            t.add(2, pos as u128, 0, HumanBytes(pos).to_string())
        }
        "total_bytes" => {
            alias(len);
            t.add(2, len as u128, 0, HumanBytes(len).to_string())
        }
        "decimal_bytes" => t.add(3, pos as u128, 0, DecimalBytes(pos).to_string()),
        "decimal_total_bytes" => t.add(3, len as u128, 0, DecimalBytes(len).to_string()),
        "binary_bytes" => t.add(4, pos as u128, 0, BinaryBytes(pos).to_string()),
        "binary_total_bytes" => t.add(4, len as u128, 0, BinaryBytes(len).to_string()),
        "percent" => t.add(8, fraction.to_bits() as u128, 0, format!("{:.0}", fraction * 100f32)),
        "percent_precise" => {
            t.add(8, fraction.to_bits() as u128, 3, format!("{:.3}", fraction * 100f32))
        }
        "elapsed_precise" => t.add(5, ns(g.elapsed), 0, FormattedDuration(g.elapsed).to_string()),
        "elapsed" => t.add(6, ns(g.elapsed), 0, format!("{:#}", HumanDuration(g.elapsed))),
        "eta_precise" => t.add(5, ns(g.eta), 0, FormattedDuration(g.eta).to_string()),
        "eta" => t.add(6, ns(g.eta), 0, format!("{:#}", HumanDuration(g.eta))),
        "duration_precise" => t.add(5, ns(g.duration), 0, FormattedDuration(g.duration).to_string()),
        "duration" => t.add(6, ns(g.duration), 0, format!("{:#}", HumanDuration(g.duration))),
        "per_sec" => {
            let bits = g.per_sec.to_bits() as u128;
            match width {
                // undocumented: a width doubles as the precision of the number
                Some(w) => {
                    let x = format!("{:.*}", w as usize, HumanFloatCount(g.per_sec));
                    t.add(7, bits, w as u128 + 1, x) + "/s"
                }
                None => t.add(7, bits, 0, HumanFloatCount(g.per_sec).to_string()) + "/s",
            }
        }
        "bytes_per_sec" => {
            alias(rate);
            t.add(2, rate as u128, 0, HumanBytes(rate).to_string()) + "/s"
        }
        "decimal_bytes_per_sec" => t.add(3, rate as u128, 0, DecimalBytes(rate).to_string()) + "/s",
        "binary_bytes_per_sec" => t.add(4, rate as u128, 0, BinaryBytes(rate).to_string()) + "/s",
        "msg" => g.message.clone(),
        "prefix" => g.prefix.clone(),
        // the current tick string (the last one once finished); a TAB in it is shown as the bar's
        // tab width in blanks, like a TAB in a message or prefix (the oracle's own `expand`, from
        // the oracle's own bookkeeping of with_tab_width / set_tab_width)
        "spinner" => {
            let n = ticks.len();
            let cur = if g.fin { &ticks[n - 1] } else { &ticks[(tick % (n as u64 - 1)) as usize] };
            expand(cur, tab)
        }
        "bar" => {
            let w = width.unwrap_or(20) as usize;
            t.add(9, fraction.to_bits() as u128, w as u128, spec_bar(fraction, w))
        }
        _ => return None,
    })
}

/// what the oracle itself knows about the bar from the history (not read from the bar)
#[derive(Clone, Debug)]
struct Book {
    tick: u64,
    msg: String,
    prefix: String,
    tab: usize,
    hidden: bool,
    log: Vec<Ev>,
}

fn expand(s: &str, tab: usize) -> String {
    s.replace('\t', &" ".repeat(tab))
}

/// Expected text of ONE template line (the parts between two newlines of the template), from the
/// getters alone, + (start offset, class) of every part of it.  `None` = the line is not drawn.
#[allow(clippy::too_many_arguments)]
fn expected_line(
    cfg: &Cfg,
    parts: &[Part],
    last: bool,
    bk: &Book,
    g: &G,
    fraction: f32,
    t: &mut Table,
    alias_bad: &mut Option<String>,
) -> (Option<String>, Vec<(usize, String)>) {
    let v = View {
        pos: g.pos,
        len: g.len,
        fin: g.fin,
    };
    // (text, class, is wide placeholder)
    let mut segs: Vec<(String, String, Option<&'static str>)> = vec![];
    for p in parts {
        match p {
            Part::NewLine => unreachable!("a template line has no newline"),
            Part::Lit(s) => segs.push((s.clone(), "literal".into(), None)),
            Part::Key(k, w) => {
                let custom = cfg.customs.iter().find(|(n, _)| n == k).map(|(_, kind)| *kind);
                let (mut text, class, wide) = match custom {
                    Some(TKind::Probe) => (String::new(), "key:custom-probe".to_string(), None),
                    Some(TKind::Closure) => (
                        expand(&format!("c\t{}", view_text(&v)), bk.tab),
                        "key:custom-closure".to_string(),
                        None,
                    ),
                    Some(TKind::Logger) => (
                        expand(&format!("{}\t{}", digest(&bk.log), view_text(&v)), bk.tab),
                        "key:custom-logger".to_string(),
                        None,
                    ),
                    None if *k == "wide_bar" || *k == "wide_msg" => {
                        (String::new(), format!("key:{k}"), Some(*k))
                    }
                    None => match doc_key(k, *w, g, fraction, bk.tick, &cfg.ticks, bk.tab, t, alias_bad) {
                        Some(x) => (x, format!("key:{k}"), None),
                        None => (String::new(), "key:unknown".to_string(), None),
                    },
                };
                if let (Some(w), None) = (w, wide) {
                    let n = text.chars().count();
                    if n < *w as usize {
                        text.push_str(&" ".repeat(*w as usize - n));
                    }
                }
                segs.push((text, class, wide));
            }
        }
    }
    // the wide element of THIS line fills what the rest of THIS line leaves of the terminal width
    if let Some(i) = segs.iter().position(|s| s.2.is_some()) {
        let rest: usize = segs.iter().map(|s| s.0.chars().count()).sum();
        let left = (cfg.width as usize).saturating_sub(rest);
        let text = if segs[i].2 == Some("wide_bar") {
            t.add(9, fraction.to_bits() as u128, left as u128, spec_bar(fraction, left))
        } else {
            let n = g.message.chars().count();
            let mut x: String = if n > left {
                g.message.chars().take(left).collect()
            } else {
                format!("{}{}", g.message, " ".repeat(left - n))
            };
            if segs[i + 1..].iter().all(|s| s.0.is_empty()) {
                x = x.trim_end().to_string();
            }
            x
        };
        segs[i].0 = text;
    }
    let mut line = String::new();
    let mut map = vec![];
    for (text, class, _) in &segs {
        map.push((line.chars().count(), class.clone()));
        line.push_str(text);
    }
    // a line that is ended by a newline of the template is always drawn (an empty row if it has
    // no text); the text after the last newline only if there is any - where the placeholder of a
    // wide element counts (`if !cur.is_empty()` is tested before the wide element is expanded)
    if last && line.is_empty() && !segs.iter().any(|s| s.2.is_some()) {
        (None, map)
    } else {
        (Some(line), map)
    }
}

/// Expected rows of a frame: every template line rendered BY ITSELF from the same getters, one
/// after the other (a value containing '\n' gives several rows) + (start offset, class) of every
/// part in the rows joined by '\n'.
fn expected_lines(
    cfg: &Cfg,
    bk: &Book,
    g: &G,
    fraction: f32,
    t: &mut Table,
    alias_bad: &mut Option<String>,
) -> (Vec<String>, Vec<(usize, String)>) {
    let tlines: Vec<&[Part]> = cfg.template.split(|p| matches!(p, Part::NewLine)).collect();
    let n = tlines.len();
    let mut rows = vec![];
    let mut map = vec![];
    let mut off = 0usize;
    for (i, parts) in tlines.iter().enumerate() {
        let (text, m) = expected_line(cfg, parts, i + 1 == n, bk, g, fraction, t, alias_bad);
        if !rows.is_empty() && text.is_some() {
            off += 1; // the '\n' that joins the rows
        }
        map.extend(m.into_iter().map(|(start, class)| (off + start, class)));
        if let Some(text) = text {
            off += text.chars().count();
            rows.extend(text.split('\n').map(|s| s.to_string()));
        }
    }
    (rows, map)
}

/// percentage defined by position and length alone (no use of fraction())
fn percent_spec(g: &G) -> f64 {
    match g.len {
        None => 0.0,
        Some(0) => 100.0,
        Some(l) => {
            if g.pos >= l {
                100.0
            } else {
                (g.pos as u128 * 100_000_000u128 / l as u128) as f64 / 1_000_000.0
            }
        }
    }
}

// ---------------------------------------------------------------- Coq syntax
fn cpart(p: &Part) -> String {
    match p {
        Part::Lit(s) => format!("PLit {}", cstr(s)),
        Part::Key(k, w) => format!("PKey \"{k}\" {}", copt(w.map(|w| w.to_string()))),
        Part::NewLine => "PNewLine".into(),
    }
}
fn cfin(f: &Fin) -> String {
    match f {
        Fin::AndLeave => "FinAndLeave".into(),
        Fin::WithMessage(m) => format!("(FinWithMessage {})", cstr(m)),
        Fin::AndClear => "FinAndClear".into(),
        Fin::Abandon => "FinAbandon".into(),
        Fin::AbandonWithMessage(m) => format!("(FinAbandonWithMessage {})", cstr(m)),
    }
}
fn cop(o: &Op) -> String {
    match o {
        Op::Tick => "OTick".into(),
        Op::Inc(d) => format!("OInc {d}"),
        Op::Dec(d) => format!("ODec {d}"),
        Op::SetPos(d) => format!("OSetPos {d}"),
        Op::SetLen(d) => format!("OSetLen {d}"),
        Op::IncLen(d) => format!("OIncLen {d}"),
        Op::DecLen(d) => format!("ODecLen {d}"),
        Op::UnsetLen => "OUnsetLen".into(),
        Op::SetMessage(m) => format!("OSetMessage {}", cstr(m)),
        Op::SetPrefix(m) => format!("OSetPrefix {}", cstr(m)),
        Op::Finish(f) => format!("OFinish {}", cfin(f)),
        Op::ResetAll => "OResetAll".into(),
        Op::ResetEta => "OResetEta".into(),
        Op::ResetElapsed => "OResetElapsed".into(),
        Op::ForceDraw => "OForceDraw".into(),
        Op::Update(p, l) => format!(
            "OUpdate {} {}",
            copt(p.map(|x| x.to_string())),
            copt(l.map(|x| x.to_string()))
        ),
        Op::SetTabWidth(w) => format!("OSetTabWidth {w}"),
    }
}
fn cview(v: &View) -> String {
    format!("(V {} {} {})", v.pos, copt(v.len.map(|x| x.to_string())), cbool(v.fin))
}
fn cev(e: &Ev) -> String {
    match e {
        Ev::Tick(n, v) => format!("EvTick {n} {}", cview(v)),
        Ev::Reset(n, v) => format!("EvReset {n} {}", cview(v)),
    }
}
fn op_name(o: &Op) -> &'static str {
    match o {
        Op::Tick => "Tick",
        Op::Inc(_) => "Inc",
        Op::Dec(_) => "Dec",
        Op::SetPos(_) => "SetPos",
        Op::SetLen(_) => "SetLen",
        Op::IncLen(_) => "IncLen",
        Op::DecLen(_) => "DecLen",
        Op::UnsetLen => "UnsetLen",
        Op::SetMessage(_) => "SetMessage",
        Op::SetPrefix(_) => "SetPrefix",
        Op::Finish(Fin::AndLeave) => "Finish",
        Op::Finish(Fin::WithMessage(_)) => "FinishWithMessage",
        Op::Finish(Fin::AndClear) => "FinishAndClear",
        Op::Finish(Fin::Abandon) => "Abandon",
        Op::Finish(Fin::AbandonWithMessage(_)) => "AbandonWithMessage",
        Op::ResetAll => "Reset",
        Op::ResetEta => "ResetEta",
        Op::ResetElapsed => "ResetElapsed",
        Op::ForceDraw => "ForceDraw",
        Op::Update(..) => "Update",
        Op::SetTabWidth(_) => "SetTabWidth",
    }
}

fn apply(o: &Op, pb: &ProgressBar) {
    match o.clone() {
        Op::Tick => pb.tick(),
        Op::Inc(d) => pb.inc(d),
        Op::Dec(d) => pb.dec(d),
        Op::SetPos(d) => pb.set_position(d),
        Op::SetLen(d) => pb.set_length(d),
        Op::IncLen(d) => pb.inc_length(d),
        Op::DecLen(d) => pb.dec_length(d),
        Op::UnsetLen => pb.unset_length(),
        Op::SetMessage(m) => pb.set_message(m),
        Op::SetPrefix(m) => pb.set_prefix(m),
        Op::Finish(Fin::AndLeave) => pb.finish(),
        Op::Finish(Fin::WithMessage(m)) => pb.finish_with_message(m),
        Op::Finish(Fin::AndClear) => pb.finish_and_clear(),
        Op::Finish(Fin::Abandon) => pb.abandon(),
        Op::Finish(Fin::AbandonWithMessage(m)) => pb.abandon_with_message(m),
        Op::ResetAll => pb.reset(),
        Op::ResetEta => pb.reset_eta(),
        Op::ResetElapsed => pb.reset_elapsed(),
        Op::ForceDraw => pb.force_draw(),
        Op::Update(p, l) => pb.update(|st| {
            if let Some(p) = p {
                st.set_pos(p);
            }
            if let Some(l) = l {
                st.set_len(l);
            }
        }),
        Op::SetTabWidth(w) => pb.set_tab_width(w),
    }
}

fn template_string(parts: &[Part]) -> String {
    let mut s = String::new();
    for p in parts {
        match p {
            Part::Lit(l) => s.push_str(l),
            Part::Key(k, None) => {
                let _ = write!(s, "{{{k}}}");
            }
            Part::Key(k, Some(w)) => {
                let _ = write!(s, "{{{k}:{w}}}");
            }
            Part::NewLine => s.push('\n'),
        }
    }
    s
}

/// frames written to the spy: one per Flush.  draw_to_term writes every row with one
/// `write_str`, a `write_line("")` BEFORE every row but the first, and a `write_str` of blanks (the
/// filler that parks the cursor at the right edge) after the last row - and after an empty first
/// row.  So: the ops of a frame are cut at the `write_line`s, the row of a group is its first
/// `write_str` (a group without one counts as an empty row, a `write_line` with a payload as a row).
fn frames(ops: Vec<TOp>) -> Vec<Vec<String>> {
    let mut out = vec![];
    let mut groups: Vec<Vec<String>> = vec![vec![]];
    for o in ops {
        match o {
            TOp::Str(s) => groups.last_mut().unwrap().push(s),
            TOp::Line(s) => {
                if !s.is_empty() {
                    groups.push(vec![s]);
                }
                groups.push(vec![]);
            }
            TOp::Flush => {
                let gs = std::mem::replace(&mut groups, vec![vec![]]);
                if gs.len() == 1 && gs[0].is_empty() {
                    out.push(vec![]);
                } else {
                    out.push(gs.into_iter().map(|g| g.into_iter().next().unwrap_or_default()).collect());
                }
            }
            _ => {}
        }
    }
    out
}

// ---------------------------------------------------------------- one case
fn run_case(s: &mut Session, cfg: &Cfg, ops: &[(u64, Op)], tag: &str) {
    let desc = format!(
        "{tag} len0={:?} ticks={:?} tab={} customs={:?} template={:?} width={} ops=[{}]",
        cfg.len0,
        cfg.ticks,
        cfg.tab,
        cfg.customs,
        template_string(&cfg.template),
        cfg.width,
        ops.iter().map(|(dt, o)| format!("+{dt}ns {}", cop(o))).collect::<Vec<_>>().join("; ")
    );
    vc::set_auto_step_ns(0);
    vc::set_clock_ns(vc::ORIGIN_NS);
    let spy = Spy::new(cfg.width, 1000);
    let probe: Shared<Option<Obs>> = shared(None);
    let mut logs: Vec<(&'static str, Shared<Vec<Ev>>)> = vec![];
    let built = catch(|| {
        let tick_refs: Vec<&str> = cfg.ticks.iter().map(|x| x.as_str()).collect();
        let mut style = ProgressStyle::with_template(&template_string(&cfg.template))
            .map_err(|e| e.to_string())?
            .tick_strings(&tick_refs)
            .progress_chars(PROGRESS_CHARS);
        for (k, kind) in &cfg.customs {
            style = match kind {
                TKind::Probe => style.with_key(*k, Probe(probe.clone())),
                TKind::Logger => {
                    let l = shared(vec![]);
                    logs.push((*k, l.clone()));
                    style.with_key(*k, Logger(l))
                }
                TKind::Closure => style.with_key(*k, |st: &ProgressState, w: &mut dyn std::fmt::Write| {
                    let _ = write!(w, "c\t{}", view_text(&view(st)));
                }),
            };
        }
        let pb = ProgressBar::with_draw_target(
            cfg.len0,
            ProgressDrawTarget::term_like(Box::new(spy.clone())),
        )
        .with_tab_width(cfg.tab);
        pb.set_style(style);
        Ok::<ProgressBar, String>(pb)
    });
    let pb = match built {
        Ok(Ok(pb)) => pb,
        Ok(Err(e)) => {
            s.fail("template-rejected", e, desc);
            return;
        }
        Err(e) => {
            s.fail("panic", format!("building the bar panicked: {e}"), desc);
            return;
        }
    };
    spy.take();

    let mut bk = Book {
        tick: 0,
        msg: String::new(),
        prefix: String::new(),
        tab: cfg.tab,
        hidden: false,
        log: vec![],
    };
    let mut table = Table(BTreeMap::new());
    let mut coq_ops = vec![];
    let mut coq_frames = vec![];
    let mut visible_frames = 0;
    let mut fails: Vec<(String, String)> = vec![];
    let has = |k: &str| {
        cfg.template.iter().any(|p| matches!(p, Part::Key(x, _) if *x == k))
            && !cfg.customs.iter().any(|(n, _)| *n == k)
    };

    for (i, (dt, op)) in ops.iter().enumerate() {
        vc::advance_clock_ns(*dt);
        let now = vc::clock_ns();
        *probe.lock().unwrap() = None;
        if let Err(e) = catch(|| apply(op, &pb)) {
            s.fail("panic", format!("call #{i} {} panicked: {e}", cop(op)), desc);
            return;
        }
        let fr = frames(spy.take());
        let g = match catch(|| getters(&pb)) {
            Ok(g) => g,
            Err(e) => {
                s.fail("panic", format!("getters after call #{i} panicked: {e}"), desc);
                return;
            }
        };
        let obs = *probe.lock().unwrap();
        let drew = !fr.is_empty();
        if fr.len() > 1 {
            fails.push(("frame-count".into(), format!("call #{i} {} drew {} frames", cop(op), fr.len())));
        }
        let v = View {
            pos: g.pos,
            len: g.len,
            fin: g.fin,
        };
        // --- the oracle's own bookkeeping of what the call means
        let is_pos = matches!(op, Op::Inc(_) | Op::Dec(_) | Op::SetPos(_));
        let allowed = !is_pos || drew;
        if is_pos && *dt >= 1_000_000 && !drew {
            fails.push((
                "pos-update-not-drawn".into(),
                format!("call #{i} {} came {dt}ns after the previous one and did not draw", cop(op)),
            ));
        }
        let (spins, ev, draws) = match op {
            Op::Tick | Op::Update(..) => (true, 1, true),
            Op::Inc(_) | Op::Dec(_) | Op::SetPos(_) => (allowed, allowed as u8, allowed),
            Op::SetLen(_) | Op::IncLen(_) | Op::DecLen(_) | Op::UnsetLen => (false, 1, true),
            Op::SetMessage(_) | Op::SetPrefix(_) => (false, 1, true),
            Op::ResetAll => (false, 2, true),
            Op::Finish(_) | Op::ForceDraw | Op::SetTabWidth(_) => (false, 0, true),
            Op::ResetEta | Op::ResetElapsed => (false, 0, false),
        };
        if spins {
            bk.tick = bk.tick.saturating_add(1);
        }
        match ev {
            1 => bk.log.push(Ev::Tick(now, v)),
            2 => bk.log.push(Ev::Reset(now, v)),
            _ => {}
        }
        match op {
            Op::SetMessage(m) => bk.msg = m.clone(),
            Op::SetPrefix(m) => bk.prefix = m.clone(),
            Op::Finish(Fin::WithMessage(m)) | Op::Finish(Fin::AbandonWithMessage(m)) => bk.msg = m.clone(),
            Op::SetTabWidth(w) => bk.tab = *w,
            _ => {}
        }
        match op {
            Op::Finish(Fin::AndClear) => bk.hidden = true,
            Op::Finish(_) => bk.hidden = false,
            Op::ResetAll => bk.hidden = false,
            _ => {}
        }
        if g.message != expand(&bk.msg, bk.tab) || g.prefix != expand(&bk.prefix, bk.tab) {
            fails.push((
                "state-getter".into(),
                format!(
                    "after call #{i} {}: message()={:?} prefix()={:?}, history defines {:?} / {:?}",
                    cop(op),
                    g.message,
                    g.prefix,
                    expand(&bk.msg, bk.tab),
                    expand(&bk.prefix, bk.tab)
                ),
            ));
        }
        if draws != drew {
            fails.push((
                if draws { "frame-missing" } else { "frame-unexpected" }.into(),
                format!("call #{i} {}: frame drawn = {drew}, expected = {draws}", cop(op)),
            ));
        }
        for (k, l) in &logs {
            if *l.lock().unwrap() != bk.log {
                fails.push((
                    "tracker-events".into(),
                    format!(
                        "after call #{i} {}: tracker {k} has seen {:?}, the bar was ticked/reset as {:?}",
                        cop(op),
                        l.lock().unwrap(),
                        bk.log
                    ),
                ));
                break;
            }
        }
        // --- the frame
        let fraction = obs.map_or(0.0, |o| o.fraction);
        if let Some(lines) = fr.first() {
            if let Some(o) = obs {
                // the probe ran inside the draw: same frozen instant as the getters read above
                if o.elapsed != g.elapsed
                    || o.eta != g.eta
                    || o.duration != g.duration
                    || o.per_sec.to_bits() != g.per_sec.to_bits()
                    || o.view != v
                {
                    fails.push((
                        "getter-instant".into(),
                        format!("call #{i} {}: state seen by a tracker at the draw {o:?} differs from the getters after the call {g:?}", cop(op)),
                    ));
                }
            }
            let mut alias_bad = None;
            let (want, map) = if bk.hidden {
                (vec![], vec![])
            } else {
                expected_lines(cfg, &bk, &g, fraction, &mut table, &mut alias_bad)
            };
            if let Some(a) = alias_bad {
                fails.push(("alias-bytes".into(), a));
            }
            if !bk.hidden {
                visible_frames += 1;
                if obs.is_none() {
                    fails.push((
                        "key:custom-probe".into(),
                        format!("call #{i} {}: a visible frame was drawn without writing the custom key", cop(op)),
                    ));
                }
            }
            if cfg.nul {
                // NUL in the texts: the frame is compared with the model only
            } else if *lines != want {
                let a = lines.join("\n");
                let b = want.join("\n");
                let at = a
                    .chars()
                    .zip(b.chars())
                    .position(|(x, y)| x != y)
                    .unwrap_or_else(|| a.chars().count().min(b.chars().count()));
                // values have variable length, literals do not: a divergence inside a literal is
                // blamed on the closest key before it
                let class = map
                    .iter()
                    .rev()
                    .filter(|(start, _)| *start <= at)
                    .find(|(_, c)| c != "literal" && c != "key:custom-probe")
                    .or_else(|| map.iter().rev().find(|(start, _)| *start <= at))
                    .map_or("frame-hidden".to_string(), |(_, c)| c.clone());
                fails.push((
                    class,
                    format!(
                        "call #{i} {}: drawn {lines:?}, the getters at that instant ({g:?}, fraction {fraction}, tick {}) define {want:?}",
                        cop(op),
                        bk.tick
                    ),
                ));
            } else if !bk.hidden {
                // percentage defined by position/length alone
                for (k, tol) in [("percent", 0.5 + 5e-5), ("percent_precise", 0.0005 + 5e-5)] {
                    if has(k) {
                        let want = percent_spec(&g);
                        let digits = if k == "percent" { 0 } else { 3 };
                        let shown = format!("{:.*}", digits, fraction * 100f32);
                        let x: f64 = shown.parse().unwrap_or(f64::NAN);
                        if !((x - want).abs() <= tol) {
                            fails.push((
                                format!("key:{k}"),
                                format!("call #{i}: {k} shows {shown} for pos={} len={:?}, position/length = {want}%", g.pos, g.len),
                            ));
                        }
                    }
                }
            }
        }
        // --- Coq side
        coq_ops.push(format!(
            "({}, E {} {} (O {} {} {} {} {}))",
            cop(op),
            now,
            cbool(allowed),
            fraction.to_bits(),
            g.elapsed.as_nanos(),
            g.eta.as_nanos(),
            g.duration.as_nanos(),
            g.per_sec.to_bits()
        ));
        coq_frames.push(copt(fr.first().map(|ls| clist(ls.iter().map(|l| cstr(l))))));
        s.count(&format!("op:{}", op_name(op)));
        if drew && !bk.hidden {
            let c = match g.len {
                None => "len=None",
                Some(l) if l == 0 => "len=0",
                Some(l) if g.pos > l => "pos>len",
                Some(l) if g.pos == l => "pos=len",
                Some(_) if g.pos == 0 => "pos=0<len",
                _ => "0<pos<len",
            };
            s.count(&format!("frame:{c}"));
            s.count(if g.fin { "frame:finished" } else { "frame:in-progress" });
            if g.pos == u64::MAX || g.len == Some(u64::MAX) {
                s.count("frame:u64::MAX");
            }
            if !g.elapsed.is_zero() {
                s.count("frame:elapsed>0");
            }
            if !g.eta.is_zero() {
                s.count("frame:eta>0");
            }
            if g.per_sec > 0.0 {
                s.count("frame:per_sec>0");
            }
            if !g.per_sec.is_finite() {
                s.count("frame:per_sec-nonfinite");
            }
            if has("spinner") {
                let n = cfg.ticks.len();
                let cur = if g.fin { &cfg.ticks[n - 1] } else { &cfg.ticks[(bk.tick % (n as u64 - 1)) as usize] };
                if cur.contains('\t') {
                    s.count("frame:spinner-with-tab");
                    s.count(&format!("frame:spinner-with-tab:tab={}", bk.tab));
                } else {
                    s.count("frame:spinner-tab-free");
                }
            }
        }
        if is_pos && !allowed {
            s.count("pos-update-throttled");
        }
    }
    // public tick string accessors agree with the cycle used above
    if let Ok(st) = catch(|| pb.style()) {
        let n = cfg.ticks.len() as u64;
        let a = catch(|| st.get_tick_str(bk.tick).to_string());
        let b = catch(|| st.get_final_tick_str().to_string());
        if a != Ok(cfg.ticks[(bk.tick % (n - 1)) as usize].clone()) || b != Ok(cfg.ticks[n as usize - 1].clone()) {
            fails.push(("key:spinner".into(), format!("get_tick_str({})={a:?} get_final_tick_str()={b:?} for {:?}", bk.tick, cfg.ticks)));
        }
    }
    let g = getters(&pb);
    for p in &cfg.template {
        if let Part::Key(k, w) = p {
            let kind = if cfg.customs.iter().any(|(n, _)| n == k) {
                "custom"
            } else if KEYS.contains(k) {
                k
            } else {
                "unknown"
            };
            if *k != "probe" {
                s.count(&format!("key:{kind}{}", if w.is_some() { ":W" } else { "" }));
            }
        }
    }
    {
        let tl: Vec<&[Part]> = cfg.template.split(|p| matches!(p, Part::NewLine)).collect();
        let is_wide = |p: &Part| matches!(p, Part::Key(k, _) if k.starts_with("wide_") && !cfg.customs.iter().any(|(n, _)| n == k));
        s.count(&format!("template:lines={}", tl.len()));
        if tl.len() > 1 {
            for (i, l) in tl.iter().enumerate() {
                let last = i + 1 == tl.len();
                if l.is_empty() {
                    s.count(if last { "template:trailing-newline" } else if i == 0 { "template:empty-first-line" } else { "template:empty-inner-line" });
                }
                for p in l.iter().filter(|p| is_wide(p)) {
                    if let Part::Key(k, _) = p {
                        s.count(&format!("template:{k}-on-{}-line", if last { "final" } else { "non-final" }));
                    }
                }
                if i > 0 && l.iter().any(|p| matches!(p, Part::Key(..))) {
                    if tl[..i].iter().any(|e| e.iter().any(|p| matches!(p, Part::Key("wide_msg", _)))) {
                        s.count("template:placeholder-after-wide_msg-line");
                    }
                    if tl[..i].iter().any(|e| e.iter().any(|p| matches!(p, Part::Key("wide_bar", _)))) {
                        s.count("template:placeholder-after-wide_bar-line");
                    }
                }
            }
        }
    }
    s.count(&format!("history-len:{}", ops.len()));
    for (class, detail) in fails {
        s.fail(&class, detail, desc.clone());
    }
    let coq = format!(
        "(KC {} {} {} {} {} {} {} {} {} ({}, {}, {}, {}, {}) {})",
        copt(cfg.len0.map(|x| x.to_string())),
        clist(cfg.ticks.iter().map(|t| cstr(t))),
        cfg.tab,
        clist(cfg.customs.iter().map(|(k, kind)| format!(
            "(\"{k}\", {})",
            match kind {
                TKind::Closure => "TClosure",
                TKind::Logger => "TLogger",
                TKind::Probe => "TProbe",
            }
        ))),
        clist(cfg.template.iter().map(cpart)),
        cfg.width,
        clist(coq_ops),
        clist(table.0.iter().map(|((f, a, b), x)| format!("({f}, {a}, {b}, {})", cstr(x)))),
        clist(coq_frames),
        g.pos,
        copt(g.len.map(|x| x.to_string())),
        cbool(g.fin),
        cstr(&g.message),
        cstr(&g.prefix),
        clist(logs.iter().map(|(k, l)| format!(
            "(\"{k}\", {})",
            clist(l.lock().unwrap().iter().map(cev))
        ))),
    );
    s.case(coq, desc, visible_frames > 0);
    // dropping the bar finishes it (one more draw into the spy, not part of the case)
    let _ = catch(move || drop(pb));
}

// ---------------------------------------------------------------- generators
fn ascii_ticks(n: usize) -> Vec<String> {
    (0..n).map(|i| format!("t{i}")).collect()
}

/// tick strings some of which contain TAB characters (leading, trailing, inner, alone, doubled):
/// `{spinner}` writes them through the TabRewriter with the bar's tab width (style.rs:277-279)
fn tab_ticks(r: &mut Rng, n: usize) -> Vec<String> {
    let mut v: Vec<String> = (0..n)
        .map(|i| match r.below(7) {
            0 => "\t".to_string(),
            1 => format!("t{i}\t"),
            2 => format!("\tt{i}"),
            3 => format!("a\tb{i}"),
            4 => "\t\t".to_string(),
            _ => format!("t{i}"),
        })
        .collect();
    if !v.iter().any(|x| x.contains('\t')) {
        let i = r.below(n as u64) as usize;
        v[i] = format!("\tt{i}");
    }
    v
}

/// the tick strings of the systematic streams (corpus, singles, grid): tab-free and TAB-holding
/// strings alternate, the final one ends with a TAB
fn base_ticks() -> Vec<String> {
    vec!["t0".into(), "t1\tx".into(), "\tt2".into(), "t3\t".into()]
}

fn arg(r: &mut Rng) -> u64 {
    const B: [u64; 12] = [0, 1, 2, 3, 7, 100, 1000, 1 << 32, (1 << 53) + 1, u64::MAX - 1, u64::MAX, 1 << 63];
    if r.chance(1, 2) {
        *r.pick(&B)
    } else if r.chance(1, 2) {
        r.below(2000)
    } else {
        r.next() >> r.below(64)
    }
}

fn dt(r: &mut Rng) -> u64 {
    const D: [u64; 12] = [
        0,
        1,
        999_999,
        1_000_000,
        1_000_001,
        50_000_000,
        499_999_999,
        1_000_000_000,
        1_500_000_000,
        61_000_000_000,
        3_600_000_000_000,
        100_000_000_000_000,
    ];
    match r.below(10) {
        0 => 0,
        1..=6 => *r.pick(&D),
        _ => 1_000_000 + r.below(20_000_000_000),
    }
}

fn message(r: &mut Rng, ascii: bool, nl: bool) -> String {
    const A: [&str; 8] = ["", "m", "downloading", "a b  ", "x\ty", "\t", "  lead", "done: 42%"];
    const U: [&str; 4] = ["h\u{e9}llo", "\u{2713} ok", "\u{65e5}\u{672c}", "a\u{0301}"];
    let base = if nl && r.chance(1, 12) {
        "l1\nl2".to_string()
    } else if !ascii && r.chance(1, 4) {
        r.pick(&U).to_string()
    } else {
        r.pick(&A).to_string()
    };
    // most messages differ from the one they replace
    if r.chance(2, 3) {
        format!("{base}{}", r.below(1000))
    } else {
        base
    }
}

fn gen_op(r: &mut Rng, ascii: bool, nl: bool) -> Op {
    match r.below(26) {
        0..=2 => Op::Tick,
        3..=5 => Op::Inc(if r.chance(2, 3) { r.below(50) } else { arg(r) }),
        6 => Op::Dec(if r.chance(2, 3) { r.below(5) } else { arg(r) }),
        7..=8 => Op::SetPos(arg(r)),
        9..=10 => Op::SetLen(arg(r)),
        11 => Op::IncLen(arg(r)),
        12 => Op::DecLen(arg(r)),
        13 => Op::UnsetLen,
        14..=15 => Op::SetMessage(message(r, ascii, nl)),
        16 => Op::SetPrefix(message(r, ascii, nl)),
        17 => Op::Finish(match r.below(5) {
            0 => Fin::AndLeave,
            1 => Fin::WithMessage(message(r, ascii, nl)),
            2 => Fin::AndClear,
            3 => Fin::Abandon,
            _ => Fin::AbandonWithMessage(message(r, ascii, nl)),
        }),
        18 => Op::ResetAll,
        19 => {
            if r.chance(1, 2) {
                Op::ResetEta
            } else {
                Op::ResetElapsed
            }
        }
        20..=21 => Op::ForceDraw,
        22..=23 => Op::Update(
            if r.chance(1, 2) { Some(arg(r)) } else { None },
            if r.chance(1, 3) { Some(arg(r)) } else { None },
        ),
        24 => Op::SetTabWidth(*r.pick(&[0usize, 1, 2, 4, 8, 13])),
        _ => Op::Inc(1),
    }
}

const LITS: [&str; 6] = [" ", "/", " | ", "[", "] ", "eta:"];

/// one random template line: `nkeys` keys with literals around them; with `wide`, one of them is a
/// wide key (never with a width); widths only on keys whose values are ASCII
fn gen_line(
    r: &mut Rng,
    nkeys: u64,
    wide: bool,
    customs: &mut Vec<(&'static str, TKind)>,
    any_width: &mut bool,
) -> Vec<Part> {
    let mut line = vec![];
    let wide_at = if nkeys > 0 { r.below(nkeys) } else { 0 };
    if r.chance(1, 2) {
        line.push(Part::Lit(r.pick(&LITS).to_string()));
    }
    for i in 0..nkeys {
        if wide && i == wide_at {
            line.push(Part::Key(if r.chance(1, 2) { "wide_bar" } else { "wide_msg" }, None));
        } else {
            let k: &'static str = match r.below(20) {
                0 => *r.pick(&UNKNOWN),
                1 => {
                    if !customs.iter().any(|(n, _)| *n == "ck") {
                        customs.push(("ck", TKind::Closure));
                    }
                    "ck"
                }
                2 => {
                    if !customs.iter().any(|(n, _)| *n == "lg") {
                        customs.push(("lg", TKind::Logger));
                    }
                    "lg"
                }
                3 => {
                    // a custom key shadowing a built-in name
                    let k = *r.pick(&["pos", "msg", "eta", "spinner"]);
                    if !customs.iter().any(|(n, _)| *n == k) {
                        customs.push((k, if r.chance(1, 2) { TKind::Logger } else { TKind::Closure }));
                    }
                    k
                }
                4..=6 => *r.pick(&["msg", "prefix", "spinner", "msg"]),
                _ => loop {
                    let k = *r.pick(&KEYS);
                    if k != "wide_bar" && k != "wide_msg" {
                        break k;
                    }
                },
            };
            let w = if r.chance(1, 4) {
                *any_width = true;
                Some(*r.pick(&[0u16, 1, 2, 3, 5, 8, 12, 20, 33]))
            } else {
                None
            };
            line.push(Part::Key(k, w));
        }
        if r.chance(2, 3) {
            line.push(Part::Lit(r.pick(&LITS).to_string()));
        }
    }
    line
}

/// random template.  3 of 5: one line of 1..=4 keys, at most one wide key.  2 of 5: 2..=3 lines
/// (each: empty 1 of 6, else 0..=3 keys, a wide key of its own 2 of 5 - so wide_msg / wide_bar sit
/// on final and non-final lines, followed by placeholders on later lines), a trailing newline 1 of 5.
/// `{probe}` ends a non-empty line.
fn gen_cfg(r: &mut Rng) -> (Cfg, bool, bool) {
    let mut customs: Vec<(&'static str, TKind)> = vec![];
    let mut any_width = false;
    let mut any_wide = false;
    let mut lines: Vec<Vec<Part>> = vec![];
    if r.chance(3, 5) {
        let nkeys = r.range(1, 4);
        any_wide = r.chance(1, 5);
        lines.push(gen_line(r, nkeys, any_wide, &mut customs, &mut any_width));
    } else {
        let nlines = r.range(2, 3);
        for _ in 0..nlines {
            if r.chance(1, 6) {
                lines.push(vec![]);
                continue;
            }
            let nkeys = r.below(4);
            let wide = nkeys > 0 && r.chance(2, 5);
            any_wide |= wide;
            let mut l = gen_line(r, nkeys, wide, &mut customs, &mut any_width);
            if l.is_empty() {
                l.push(Part::Lit(r.pick(&LITS).to_string()));
            }
            lines.push(l);
        }
        if lines.iter().all(|l| l.is_empty()) {
            let i = r.below(lines.len() as u64) as usize;
            lines[i] = gen_line(r, 1, false, &mut customs, &mut any_width);
        }
        if r.chance(1, 5) {
            lines.push(vec![]); // the template ends with a newline
        }
    }
    // a second logger that is not in the template still has to be ticked
    if r.chance(1, 6) && !customs.iter().any(|(n, _)| *n == "lg2") {
        customs.push(("lg2", TKind::Logger));
    }
    customs.push(("probe", TKind::Probe));
    let full: Vec<usize> = (0..lines.len()).filter(|i| !lines[*i].is_empty()).collect();
    let at = if r.chance(1, 2) { *full.last().unwrap() } else { *r.pick(&full) };
    lines[at].push(Part::Key("probe", None));
    let mut template = vec![];
    for (i, l) in lines.into_iter().enumerate() {
        if i > 0 {
            template.push(Part::NewLine);
        }
        template.extend(l);
    }
    let ascii = any_wide || any_width;
    let ticks = if !ascii && r.chance(1, 3) {
        "⠁⠁⠉⠙⠚⠒⠂⠂⠒⠲⠴⠤⠄⠄⠤⠠⠠⠤⠦⠖⠒⠐⠐⠒⠓⠋⠉⠈⠈ ".chars().map(|c| c.to_string()).collect()
    } else if r.chance(2, 5) {
        let n = r.range(2, 6) as usize;
        tab_ticks(r, n)
    } else {
        ascii_ticks(r.range(2, 6) as usize)
    };
    let cfg = Cfg {
        len0: match r.below(4) {
            0 => None,
            1 => Some(arg(r)),
            _ => Some(r.below(3000)),
        },
        ticks,
        tab: *r.pick(&[8usize, 8, 4, 1, 0, 3]),
        customs,
        template,
        width: if any_wide { *r.pick(&[40u16, 80, 100, 7, 1]) } else { 1000 },
        nul: false,
    };
    (cfg, ascii, !any_wide && !any_width)
}

fn family_templates() -> Vec<Vec<Part>> {
    let mk = |keys: &[&'static str]| {
        let mut v = vec![];
        for k in keys {
            v.push(Part::Key(*k, None));
            v.push(Part::Lit("|".into()));
        }
        v.push(Part::Key("probe", None));
        v
    };
    vec![
        mk(&[
            "pos",
            "human_pos",
            "len",
            "human_len",
            "percent",
            "percent_precise",
            "bytes",
            "total_bytes",
            "decimal_bytes",
            "decimal_total_bytes",
            "binary_bytes",
            "binary_total_bytes",
        ]),
        mk(&[
            "elapsed_precise",
            "elapsed",
            "per_sec",
            "bytes_per_sec",
            "decimal_bytes_per_sec",
            "binary_bytes_per_sec",
            "eta_precise",
            "eta",
            "duration_precise",
            "duration",
        ]),
        mk(&["spinner", "prefix", "msg", "bar", "lg", "ck"]),
    ]
}

fn base_cfg(template: Vec<Part>, len0: Option<u64>, width: u16) -> Cfg {
    let mut customs = vec![];
    for p in &template {
        if let Part::Key(k, _) = p {
            match *k {
                "lg" => customs.push(("lg", TKind::Logger)),
                "ck" => customs.push(("ck", TKind::Closure)),
                "probe" => customs.push(("probe", TKind::Probe)),
                _ => {}
            }
        }
    }
    Cfg {
        len0,
        ticks: base_ticks(),
        tab: 8,
        customs,
        template,
        width,
        nul: false,
    }
}

/// the (position, length) grid of the property: {0, 1, len-1, len, len+1, 2^64-1, None}^2
fn grid(s: &mut Session, lens: &[Option<u64>]) {
    let fams = family_templates();
    for &len in lens {
        let mut ps: Vec<u64> = vec![0, 1, u64::MAX];
        if let Some(l) = len {
            ps.extend([l.saturating_sub(1), l, l.saturating_add(1)]);
        } else {
            ps.extend([5, 1 << 40]);
        }
        ps.sort_unstable();
        ps.dedup();
        for &p in &ps {
            for (fi, fam) in fams.iter().enumerate() {
                for fin in 0..6 {
                    let cfg = base_cfg(fam.clone(), Some(3), 1000);
                    let mut ops = vec![
                        (0, match len {
                            Some(l) => Op::SetLen(l),
                            None => Op::UnsetLen,
                        }),
                        (2_000_000, Op::Inc(p / 2)),
                        (1_500_000_000, Op::SetPos(p)),
                        (700_000_000, Op::Tick),
                        (0, Op::ForceDraw),
                    ];
                    match fin {
                        1 => ops.push((250_000_000, Op::Finish(Fin::Abandon))),
                        2 => {
                            ops.push((250_000_000, Op::Finish(Fin::WithMessage("fin".into()))));
                            ops.push((1_000_000_000, Op::ForceDraw));
                        }
                        3 => ops.push((250_000_000, Op::Finish(Fin::AbandonWithMessage("ab".into())))),
                        4 => {
                            ops.push((250_000_000, Op::Finish(Fin::AndLeave)));
                            ops.push((0, Op::ResetAll));
                        }
                        5 => {
                            ops.push((1, Op::SetPrefix("p".into())));
                            ops.push((250_000_000, Op::Finish(Fin::AndClear)));
                            ops.push((0, Op::ForceDraw));
                        }
                        _ => ops.push((3_000_000_000, Op::SetMessage("m\tx".into()))),
                    }
                    run_case(s, &cfg, &ops, &format!("grid[{fi}]"));
                }
            }
        }
    }
}

/// every documented key alone in a template (with and without a width), same short history
fn singles(s: &mut Session, r: &mut Rng) {
    let mut keys: Vec<&'static str> = KEYS.to_vec();
    keys.extend(UNKNOWN);
    for k in keys {
        for w in [None, Some(0u16), Some(3), Some(30)] {
            let wide = k.starts_with("wide_");
            if wide && w.is_some() {
                continue;
            }
            let template = vec![Part::Lit("<".into()), Part::Key(k, w), Part::Lit(">".into()), Part::Key("probe", None)];
            let len = *r.pick(&[None, Some(0), Some(10), Some(1_000_000), Some(u64::MAX)]);
            let cfg = base_cfg(template, len, if wide { 30 } else { 1000 });
            let ops = vec![
                (0, Op::SetMessage("hello wide world, hello".into())),
                (3_000_000, Op::SetPrefix("pre".into())),
                (1_000_000_000, Op::Inc(3)),
                (2_000_000_000, Op::Inc(arg(r) % 1_000_000)),
                (500_000_000, Op::Tick),
                (0, Op::Tick),
                (90_000_000_000, Op::Update(None, None)),
                (
                    1,
                    Op::Finish(match w {
                        None => Fin::AndLeave,
                        Some(0) => Fin::WithMessage("finished".into()),
                        Some(3) => Fin::AbandonWithMessage("abandoned".into()),
                        _ => Fin::Abandon,
                    }),
                ),
                (1_000_000_000, Op::ForceDraw),
                (0, Op::ResetAll),
                (5_000_000_000, Op::Inc(1)),
            ];
            run_case(s, &cfg, &ops, "single");
        }
    }
}

fn corpus(s: &mut Session) {
    let t = |keys: &[(&'static str, Option<u16>)]| {
        let mut v = vec![];
        for (k, w) in keys {
            v.push(Part::Key(*k, *w));
            v.push(Part::Lit(" ".into()));
        }
        v.push(Part::Key("probe", None));
        v
    };
    // ---- multi-line templates.  First the witness of seeded defect C10-2 (scratch buffer cleared
    // after instead of before use: the first placeholder of the line after a {wide_msg} line gets
    // the padded message in front of its value), then the other ways a line could see another one.
    let k = |k: &'static str| Part::Key(k, None);
    let kw = |k: &'static str, w: u16| Part::Key(k, Some(w));
    let l = |x: &str| Part::Lit(x.to_string());
    let nl = || Part::NewLine;
    let ml_ops = || {
        vec![
            (0, Op::SetPrefix("job".into())),
            (0, Op::SetMessage("hello".into())),
            (2_000_000, Op::Inc(3)),
            (1_000_000_000, Op::Tick),
            (0, Op::SetMessage("a message that is longer than the terminal is wide".into())),
            (500_000_000, Op::Finish(Fin::WithMessage("done".into()))),
        ]
    };
    for (tpl, w) in [
        // "{prefix}: {wide_msg}\n[{pos}/{len}] {percent}%"
        (vec![k("prefix"), l(": "), k("wide_msg"), nl(), l("["), k("pos"), l("/"), k("len"), l("] "), k("percent"), l("%"), k("probe")], 40u16),
        // unknown key / custom keys / a key with a width first on the line after a wide_msg line
        (vec![k("wide_msg"), nl(), l("<"), k("foo"), l("> "), k("pos"), k("probe")], 40),
        (vec![k("wide_msg"), k("probe"), nl(), k("ck"), l("|"), k("lg")], 40),
        (vec![k("pos"), l(" "), k("wide_msg"), l("|"), nl(), kw("len", 6), l("|"), k("probe")], 30),
        // a wide element on every line, each filling its own line; plain lines after them
        (vec![l("["), k("wide_bar"), l("]"), nl(), k("wide_msg"), l(" "), kw("pos", 5), nl(), k("msg"), l("|"), k("len"), k("probe")], 31),
        (vec![k("wide_msg"), nl(), k("wide_msg"), l("!"), nl(), k("wide_bar"), k("probe")], 12),
        (vec![k("wide_bar"), nl(), k("prefix"), k("probe"), nl(), k("wide_bar")], 7),
        // a wide element on the final line only
        (vec![k("pos"), l("/"), k("len"), nl(), k("spinner"), l(" "), k("wide_msg"), k("probe")], 20),
        // empty lines: inner, first, after a trailing newline; a line with nothing but an empty value
        (vec![k("pos"), k("probe"), nl(), nl(), k("len"), nl()], 1000),
        (vec![nl(), k("pos"), k("probe")], 1000),
        (vec![nl(), nl(), k("msg"), k("probe"), nl()], 1000),
        (vec![k("probe"), nl(), k("pos")], 1000),
        (vec![k("pos"), nl(), k("probe")], 1000),
        (vec![k("foo"), nl(), k("msg"), k("probe"), nl(), k("foo")], 1000),
        (vec![k("wide_msg"), nl(), k("probe"), nl(), k("wide_msg"), nl()], 9),
    ] {
        let cfg = base_cfg(tpl, Some(10), w);
        run_case(s, &cfg, &ml_ops(), "corpus:multi-line");
    }
    // a message of several rows inside a multi-line template
    let cfg = base_cfg(vec![k("pos"), nl(), k("msg"), l("|"), nl(), k("len"), k("probe")], Some(10), 1000);
    run_case(s, &cfg, &[(0, Op::SetMessage("r1\nr2\n".into())), (0, Op::Inc(1)), (0, Op::SetMessage("".into()))], "corpus:multi-line");
    // the one cross-line effect the code has (Keys.v: `wide` is never reset, WideElement::expand
    // replaces every NUL of the line it is applied to): a NUL in the TEXT of a line after a wide
    // line (theorem C11_wide_element_carried_witness).  Correspondence only.
    for (tpl, w) in [
        (vec![k("wide_msg"), nl(), k("prefix"), k("probe")], 8u16),
        (vec![k("wide_msg"), l("|"), k("prefix"), k("probe")], 12),
        (vec![k("prefix"), k("probe"), nl(), k("wide_msg")], 8),
    ] {
        let mut cfg = base_cfg(tpl, Some(10), w);
        cfg.nul = true;
        run_case(s, &cfg, &[(0, Op::SetMessage("m".into())), (0, Op::SetPrefix("a\0b".into())), (0, Op::Inc(1))], "corpus:nul-carry");
    }
    // tick strings with TABs (fix 6ff82af: `{spinner}` goes through the TabRewriter with the bar's
    // tab width, which set_tab_width changes between draws).  First the audit's witness (AUDIT3
    // finding 3: ticks ["\ta","b"], tab 4, "{spinner}|" must draw "    a|").
    let mut cfg = base_cfg(vec![k("spinner"), l("|"), k("probe")], Some(10), 1000);
    cfg.ticks = vec!["\ta".into(), "b".into()];
    cfg.tab = 4;
    run_case(s, &cfg, &[(0, Op::Tick), (0, Op::ForceDraw), (0, Op::Finish(Fin::AndLeave))], "corpus:spinner-tab");
    let tab_ops = || {
        vec![
            (0, Op::Tick),
            (0, Op::Tick),
            (0, Op::SetTabWidth(2)),
            (2_000_000, Op::Inc(1)),
            (0, Op::SetTabWidth(0)),
            (0, Op::ForceDraw),
            (0, Op::Tick),
            (0, Op::SetTabWidth(13)),
            (0, Op::SetMessage("m\tx".into())),
            (0, Op::Finish(Fin::AndLeave)),
            (0, Op::SetTabWidth(1)),
            (0, Op::ResetAll),
            (0, Op::Tick),
        ]
    };
    for (tpl, w) in [
        // alone, padded to a width (measured after the expansion), beside a message with a TAB
        (vec![l("<"), k("spinner"), l(">"), kw("spinner", 6), l("|"), k("msg"), k("probe")], 1000u16),
        // the expanded tick string takes columns from the wide element of its line
        (vec![k("spinner"), l(" "), k("wide_msg"), k("probe")], 20),
        (vec![l("["), k("wide_bar"), l("]"), k("spinner"), k("probe")], 24),
        // on the second line of a multi-line template; a line with nothing but the spinner
        (vec![k("pos"), l("/"), k("len"), k("probe"), nl(), k("spinner"), l("|"), nl(), k("spinner")], 1000),
    ] {
        let mut cfg = base_cfg(tpl, Some(10), w);
        cfg.ticks = vec!["\ta".into(), "b\t".into(), "c".into(), "\t".into()];
        cfg.tab = 4;
        run_case(s, &cfg, &tab_ops(), "corpus:spinner-tab");
    }
    // finish at elapsed == 0: per_sec is 0/0 or x/0
    let cfg = base_cfg(t(&[("per_sec", None), ("bytes_per_sec", None), ("per_sec", Some(2))]), Some(10), 1000);
    run_case(s, &cfg, &[(0, Op::Finish(Fin::AndLeave)), (0, Op::ForceDraw)], "corpus:nan-rate");
    let cfg = base_cfg(t(&[("per_sec", None), ("decimal_bytes_per_sec", None)]), Some(0), 1000);
    run_case(s, &cfg, &[(0, Op::Finish(Fin::Abandon))], "corpus:nan-rate0");
    // length < position, zero length, unknown length, u64::MAX
    let fam = family_templates();
    for (l, p) in [(Some(5u64), 9u64), (Some(0), 0), (Some(0), 7), (None, 7), (Some(u64::MAX), u64::MAX), (Some(u64::MAX), 1), (Some(1), u64::MAX)] {
        let cfg = base_cfg(fam[0].clone(), l, 1000);
        run_case(s, &cfg, &[(5_000_000, Op::SetPos(p)), (1_000_000_000, Op::Tick)], "corpus:pos-len");
    }
    // spinner cycle: n-1 non-final strings, final string only when finished, reset un-finishes
    let mut cfg = base_cfg(t(&[("spinner", None), ("lg", None)]), None, 1000);
    cfg.ticks = ascii_ticks(3);
    let mut ops: Vec<(u64, Op)> = (0..5).map(|_| (0, Op::Tick)).collect();
    ops.push((0, Op::Finish(Fin::AndClear)));
    ops.push((0, Op::ForceDraw));
    ops.push((0, Op::Tick));
    ops.push((0, Op::ResetAll));
    ops.push((0, Op::Tick));
    run_case(s, &cfg, &ops, "corpus:spinner");
    // burst of position updates on a frozen clock: AtomicPosition throttles after 10
    let cfg = base_cfg(t(&[("pos", None), ("spinner", None), ("lg", None)]), Some(100), 1000);
    let ops: Vec<(u64, Op)> = (0..14).map(|i| (if i == 12 { 1_000_000 } else { 0 }, Op::Inc(1))).collect();
    run_case(s, &cfg, &ops, "corpus:burst");
    // custom key shadows a built-in one; unknown key renders nothing; tabs in custom output
    let mut cfg = base_cfg(t(&[("pos", None), ("len", Some(6)), ("foo", None), ("foo", Some(4))]), Some(8), 1000);
    cfg.customs.insert(0, ("pos", TKind::Closure));
    cfg.tab = 3;
    run_case(s, &cfg, &[(0, Op::Inc(2)), (0, Op::SetTabWidth(5)), (0, Op::Finish(Fin::AndLeave))], "corpus:shadow");
    // wide_msg at the end of the line is trimmed, in the middle it is padded; wide_bar takes the rest
    for (tpl, w) in [
        (vec![Part::Key("pos", None), Part::Lit(" ".into()), Part::Key("wide_msg", None), Part::Key("probe", None)], 20u16),
        (vec![Part::Key("wide_msg", None), Part::Lit("|".into()), Part::Key("pos", None), Part::Key("probe", None)], 20),
        (vec![Part::Lit("[".into()), Part::Key("wide_bar", None), Part::Lit("] ".into()), Part::Key("percent", Some(4)), Part::Key("probe", None)], 31),
        (vec![Part::Key("wide_bar", None), Part::Key("probe", None)], 1),
    ] {
        let cfg = base_cfg(tpl, Some(7), w);
        run_case(
            s,
            &cfg,
            &[
                (0, Op::SetMessage("short  ".into())),
                (2_000_000, Op::Inc(3)),
                (0, Op::SetMessage("a message that is longer than the terminal".into())),
                (2_000_000, Op::Inc(4)),
                (2_000_000, Op::Inc(4)),
            ],
            "corpus:wide",
        );
    }
    // an empty line is not drawn
    let cfg = base_cfg(t(&[]), Some(1), 80);
    let mut cfg2 = cfg.clone();
    cfg2.template = vec![Part::Key("msg", None), Part::Key("probe", None)];
    run_case(s, &cfg2, &[(0, Op::Tick), (0, Op::SetMessage("x".into())), (0, Op::SetMessage("".into()))], "corpus:empty-line");
    run_case(s, &cfg, &[(0, Op::Tick)], "corpus:literal-only");
}

/// Running clock (every `Instant::now()` advances it): the elapsed keys must show the clock of
/// some instant between a getter read before the call and one after it ("getter sandwich").
/// Oracle only; elapsed is the one clock dependent value that is monotone in time.
fn sandwich(s: &mut Session, r: &mut Rng, n: usize) {
    for _ in 0..n {
        let step = *r.pick(&[1u64, 1_000_000, 400_000_000, 1_000_000_000, 7_000_000_000, 3_600_000_000_000]);
        let lead = dt(r);
        let desc = format!("sandwich step={step}ns lead={lead}ns template=\"{{elapsed_precise}}|{{elapsed}}\"");
        vc::set_auto_step_ns(0);
        vc::set_clock_ns(vc::ORIGIN_NS);
        let spy = Spy::new(200, 50);
        let res = catch(|| {
            let pb = ProgressBar::with_draw_target(Some(100), ProgressDrawTarget::term_like(Box::new(spy.clone())));
            pb.set_style(ProgressStyle::with_template("{elapsed_precise}|{elapsed}").unwrap());
            vc::advance_clock_ns(lead);
            vc::set_auto_step_ns(step);
            let before = pb.elapsed();
            spy.take();
            pb.tick();
            let fr = frames(spy.take());
            let after = pb.elapsed();
            vc::set_auto_step_ns(0);
            (before, fr, after)
        });
        vc::set_auto_step_ns(0);
        let (before, fr, after) = match res {
            Ok(x) => x,
            Err(e) => {
                s.fail("panic", e, desc);
                continue;
            }
        };
        let line = fr.first().and_then(|f| f.first()).cloned().unwrap_or_default();
        let mut parts = line.split('|');
        let (a, b) = (parts.next().unwrap_or(""), parts.next().unwrap_or(""));
        let (mut ok_a, mut ok_b) = (false, false);
        let mut d = before;
        for _ in 0..64 {
            if d > after {
                break;
            }
            ok_a |= a == FormattedDuration(d).to_string();
            ok_b |= b == format!("{:#}", HumanDuration(d));
            d += Duration::from_nanos(step);
        }
        if !ok_a || !ok_b {
            s.fail(
                if ok_a { "key:elapsed" } else { "key:elapsed_precise" },
                format!("drawn {line:?} while elapsed() went from {before:?} to {after:?} in steps of {step}ns"),
                desc.clone(),
            );
        }
        s.count("sandwich");
        s.oracle_only(desc, true);
    }
}

/// Time that passes INSIDE one public call (the closure of `ProgressBar::update`, a custom
/// `ProgressTracker::tick`): the elapsed keys of the frame drawn by that call must show the clock
/// at draw time - the value `elapsed()` returns right after the call, the mock clock standing
/// still - not the instant the call read when it started.  Oracle only.
fn inside_call_time(s: &mut Session, r: &mut Rng, n: usize) {
    struct Slow(u64);
    impl ProgressTracker for Slow {
        fn clone_box(&self) -> Box<dyn ProgressTracker> {
            Box::new(Slow(self.0))
        }
        fn tick(&mut self, _: &ProgressState, _: Instant) {
            vc::advance_clock_ns(self.0);
        }
        fn reset(&mut self, _: &ProgressState, _: Instant) {}
        fn write(&self, _: &ProgressState, w: &mut dyn std::fmt::Write) {
            let _ = w.write_str("s");
        }
    }
    for i in 0..n {
        let inside = *r.pick(&[1_000_000_000u64, 2_200_000_000, 61_000_000_000, 3_600_000_000_000, 90_000_000_000]);
        let lead = dt(r);
        let via_tracker = i % 2 == 1;
        let desc = format!(
            "inside-call-time lead={lead}ns inside={inside}ns via={} template=\"{{elapsed_precise}}|{{elapsed}}|{{pos}}\"",
            if via_tracker { "tracker-tick" } else { "update-closure" }
        );
        vc::set_auto_step_ns(0);
        vc::set_clock_ns(vc::ORIGIN_NS);
        let spy = Spy::new(200, 50);
        let res = catch(|| {
            let pb = ProgressBar::with_draw_target(Some(100), ProgressDrawTarget::term_like(Box::new(spy.clone())));
            let mut style = ProgressStyle::with_template("{elapsed_precise}|{elapsed}|{pos}{slow}").unwrap();
            if via_tracker {
                style = style.with_key("slow", Slow(inside));
            }
            pb.set_style(style);
            vc::advance_clock_ns(lead);
            spy.take();
            if via_tracker {
                pb.tick();
            } else {
                pb.update(|st| {
                    vc::advance_clock_ns(inside);
                    st.set_pos(3);
                });
            }
            let fr = frames(spy.take());
            (fr, pb.elapsed())
        });
        let (fr, after) = match res {
            Ok(x) => x,
            Err(e) => {
                s.fail("panic", e, desc);
                continue;
            }
        };
        let line = fr.last().and_then(|f| f.first()).cloned().unwrap_or_default();
        let mut parts = line.split('|');
        let (a, b) = (parts.next().unwrap_or(""), parts.next().unwrap_or(""));
        if a != FormattedDuration(after).to_string() {
            s.fail("key:elapsed_precise", format!("drawn {line:?} but elapsed() is {after:?} right after the call (clock frozen)"), desc.clone());
        } else if b != format!("{:#}", HumanDuration(after)) {
            s.fail("key:elapsed", format!("drawn {line:?} but elapsed() is {after:?} right after the call (clock frozen)"), desc.clone());
        }
        s.count("inside-call-time");
        s.oracle_only(desc, true);
    }
}

fn main() {
    let a = args();
    let header = "From IndModel Require Import Base Keys.\nOpen Scope N_scope.\nOpen Scope string_scope.\n\
                  Definition E := Build_env.\nDefinition O := Build_tobs.\nDefinition V := Build_view.\n";
    let mut s = Session::new(&a, "C11", header, "kcase", "keys_check");
    s.shard_size = 150;
    s.rule = "a case = style (template of 1..3 lines - 2 of 5 random templates have 2..3 lines, with empty lines, a \
              trailing newline, wide_msg / wide_bar on final and non-final lines and placeholders on the lines after them - \
              of 0..12 placeholders from the 28 documented keys, unknown keys, custom keys incl. \
              ones shadowing built-in names; optional width; at most one wide key per line; 2..6 tick strings, in 2 of 5 random \
              styles and in every systematic case some of them containing TAB characters, which {spinner} must show as the bar's \
              current tab width in blanks) + history of 0..14 public ProgressBar \
              calls (tick/inc/dec/set_position/set_length/inc_length/dec_length/unset_length/set_message/set_prefix/\
              finish*/abandon*/reset*/force_draw/update/set_tab_width), each preceded by a mock clock advance from \
              {0,1ns,..,1ms,..,1s,..,27h}; every frame drawn into the Spy terminal is compared with public \
              formatter(public getter) at the frozen instant and with the Coq model; systematic part: all 28 keys alone \
              x widths {none,0,3,30}, and the (pos,len) grid {0,1,len-1,len,len+1,2^64-1}x{None,0,1,..,2^64-1} x 3 key \
              families x {in progress, every finish/abandon flavour, reset after finish}; non-trivial = at least one visible frame drawn; distinct = \
              distinct description"
        .into();
    let mut r = Rng::new(a.seed);
    corpus(&mut s);
    if !a.extended {
        singles(&mut s, &mut r);
        let lens: Vec<Option<u64>> = if a.thorough {
            vec![None, Some(0), Some(1), Some(2), Some(3), Some(7), Some(100), Some(1000), Some(1 << 24), Some((1 << 24) + 1), Some(1 << 32), Some((1 << 53) + 1), Some(1 << 63), Some(u64::MAX - 1), Some(u64::MAX)]
        } else {
            vec![None, Some(0), Some(1), Some(7), Some(1000), Some(1 << 32), Some(u64::MAX)]
        };
        grid(&mut s, &lens);
    }
    let n = if a.thorough { 25_000 } else if a.extended { 14_000 } else { 1_400 };
    for _ in 0..n {
        let (cfg, ascii, nl) = gen_cfg(&mut r);
        let len = if r.chance(1, 8) { r.below(3) } else { r.range(2, 12) } as usize;
        let ops: Vec<(u64, Op)> = (0..len).map(|_| (dt(&mut r), gen_op(&mut r, ascii, nl))).collect();
        run_case(&mut s, &cfg, &ops, "random");
    }
    sandwich(&mut s, &mut r, if a.thorough { 400 } else { 60 });
    inside_call_time(&mut s, &mut r, if a.thorough { 200 } else { 40 });
    vc::set_auto_step_ns(0);
    s.finish();
}
