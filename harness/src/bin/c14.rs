//! C14 – every style the builder accepts can be rendered without panicking.
//!
//! Correspondence with coq/model/Builder.v (`builder_check`) + independent oracle:
//!   * a chain of builder calls is run call by call under `catch`; observed = built / Err /
//!     panic (index of the call, site recognised from the panic message);
//!   * every built style is put on bars in a matrix of states x terminal sizes on a recording
//!     terminal and drawn through the public API, every call under `catch`;
//!   * ProgressStyle::get_tick_str / get_final_tick_str (public) are probed up to u64::MAX.
//! Oracle (not a copy of the model): the documented rejection rule decides build-panic vs
//! accepted; nothing after a successful build may panic; tick string selection; the measured
//! width of every string never exceeds its byte length.
//! The same matrix is run a second time by a release build (no overflow checks) of this binary
//! (child process, env C14_CHILD=1) and the outcomes are compared case by case.
use indicatif::{ProgressBar, ProgressDrawTarget, ProgressState, ProgressStyle};
use std::fmt::Write as _;
use unicode_width::UnicodeWidthStr;
use verif_harness::spy::{Spy, TOp};
use verif_harness::*;

const STATES: [&str; 8] = ["Literal", "MaybeOpen", "DoubleClose", "Key", "Align", "Width", "FirstStyle", "AltStyle"];

// ------------------------------------------------------------------ clusters
/// Curated extended grapheme clusters.  Each entry is ONE cluster under UAX #29 and no entry
/// starts with an Extend / ZWJ / SpacingMark / Regional-Indicator-continuing character that would
/// merge with the entry before it (flags are complete pairs), so the segmentation of a
/// concatenation is the list of entries by construction.  Widths are measured at run time.
const CL_W1: &[&str] = &["#", ">", "-", "=", ".", "a", "\u{2588}", "\u{2591}", "\u{258f}", "\u{258c}", "\u{e9}", "e\u{301}", "o\u{308}\u{304}", "\u{3b1}"];
const CL_W2: &[&str] = &["\u{65e5}", "\u{672c}", "\u{8a9e}", "\u{d55c}", "\u{1f44d}", "\u{1f468}\u{200d}\u{1f469}\u{200d}\u{1f467}", "\u{1f1e9}\u{1f1ea}", "\u{2764}\u{fe0f}", "\u{ff21}"];
const CL_W0: &[&str] = &["\u{200b}", "\u{2060}", "\u{feff}"];

fn meas(s: &str) -> usize {
    UnicodeWidthStr::width(s)
}

#[derive(Clone, Debug)]
enum Ctor {
    DefaultBar,
    DefaultSpinner,
    WithTemplate(String),
}

#[derive(Clone, Debug)]
enum Op {
    TickChars(String),
    TickStrings(Vec<String>),
    ProgressChars(Vec<String>), // the clusters; the argument is their concatenation
    Template(String),
    WithKey(String, String), // key, text the tracker writes
}

fn esc(s: &str) -> String {
    let mut o = String::new();
    for c in s.chars() {
        if (' '..='~').contains(&c) && c != '\\' && c != '"' {
            o.push(c)
        } else {
            let _ = write!(o, "\\u{{{:x}}}", c as u32);
        }
    }
    o
}

impl Ctor {
    fn coq(&self) -> String {
        match self {
            Ctor::DefaultBar => "CDefaultBar".into(),
            Ctor::DefaultSpinner => "CDefaultSpinner".into(),
            Ctor::WithTemplate(t) => format!("CWithTemplate {}", cstr(t)),
        }
    }
    fn show(&self) -> String {
        match self {
            Ctor::DefaultBar => "default_bar()".into(),
            Ctor::DefaultSpinner => "default_spinner()".into(),
            Ctor::WithTemplate(t) => format!("with_template(\"{}\")", esc(t)),
        }
    }
}

impl Op {
    fn coq(&self) -> String {
        match self {
            Op::TickChars(s) => format!("OTickChars {}", cstr(s)),
            Op::TickStrings(v) => format!("OTickStrings {}", clist(v.iter().map(|x| cstr(x)))),
            Op::ProgressChars(cl) => format!(
                "OProgressChars {}",
                clist(cl.iter().map(|c| format!("mkcl {} {}", cstr(c), meas(c))))
            ),
            Op::Template(t) => format!("OTemplate {}", cstr(t)),
            Op::WithKey(k, _) => format!("OWithKey {}", cstr(k)),
        }
    }
    fn show(&self) -> String {
        match self {
            Op::TickChars(s) => format!("tick_chars(\"{}\")", esc(s)),
            Op::TickStrings(v) => format!(
                "tick_strings(&[{}])",
                v.iter().map(|x| format!("\"{}\"", esc(x))).collect::<Vec<_>>().join(",")
            ),
            Op::ProgressChars(cl) => format!("progress_chars(\"{}\")", esc(&cl.concat())),
            Op::Template(t) => format!("template(\"{}\")", esc(t)),
            Op::WithKey(k, v) => format!("with_key(\"{}\" -> \"{}\")", esc(k), esc(v)),
        }
    }
    fn name(&self) -> &'static str {
        match self {
            Op::TickChars(_) => "tick_chars",
            Op::TickStrings(_) => "tick_strings",
            Op::ProgressChars(_) => "progress_chars",
            Op::Template(_) => "template",
            Op::WithKey(..) => "with_key",
        }
    }
    /// The documented contract (doc comments of the builder methods), written directly:
    /// Some(reason) if the argument must be rejected with a panic.
    fn documented_reject(&self) -> Option<&'static str> {
        match self {
            Op::TickChars(s) if s.chars().count() < 2 => Some("ticks-lt2"),
            Op::TickStrings(v) if v.len() < 2 => Some("ticks-lt2"),
            Op::ProgressChars(cl) if cl.len() < 2 => Some("chars-lt2"),
            Op::ProgressChars(cl) if cl.iter().any(|c| meas(c) != meas(&cl[0])) => Some("unequal-width"),
            Op::ProgressChars(cl) if meas(&cl[0]) == 0 => Some("zero-width"),
            Op::ProgressChars(cl) if cl.concat().contains('\t') => Some("tab-in-chars"),
            _ => None,
        }
    }
}

// ------------------------------------------------------------------ observation of the build
#[derive(Clone, Debug, PartialEq)]
enum Built {
    Ok,
    Err(usize, usize, char), // call index, state, char
    Panic(usize, u32, String), // call index, site, message
    Unparsable(String),
}

fn site_of(msg: &str) -> u32 {
    if msg.contains("at least 2 tick chars required") {
        118
    } else if msg.contains("at least 2 tick strings required") {
        133
    } else if msg.contains("at least 2 progress chars required") {
        148
    } else if msg.contains("progress chars must not be zero-width") {
        153
    } else if msg.contains("progress chars must not contain tabs") {
        158
    } else if msg.contains("got passed un-equal width progress characters") {
        64
    } else if msg.contains("Option::unwrap()") {
        68
    } else {
        0
    }
}

fn parse_err(msg: &str, t: &str) -> Option<(usize, char)> {
    for (si, st) in STATES.iter().enumerate() {
        for c in t.chars() {
            if msg == format!("TemplateError: unexpected character {c:?} in state {st}") {
                return Some((si, c));
            }
        }
    }
    None
}

fn tracker(text: String) -> impl Fn(&ProgressState, &mut dyn std::fmt::Write) + Send + Sync + Clone + 'static {
    move |_: &ProgressState, w: &mut dyn std::fmt::Write| {
        let _ = w.write_str(&text);
    }
}

fn build(ctor: &Ctor, ops: &[Op]) -> (Built, Option<ProgressStyle>) {
    let first = catch(|| match ctor {
        Ctor::DefaultBar => Ok(ProgressStyle::default_bar()),
        Ctor::DefaultSpinner => Ok(ProgressStyle::default_spinner()),
        Ctor::WithTemplate(t) => ProgressStyle::with_template(t),
    });
    let mut style = match first {
        Err(m) => return (Built::Panic(0, site_of(&m), m), None),
        Ok(Err(e)) => {
            let m = e.to_string();
            let t = match ctor {
                Ctor::WithTemplate(t) => t.as_str(),
                _ => "",
            };
            return match parse_err(&m, t) {
                Some((s, c)) => (Built::Err(0, s, c), None),
                None => (Built::Unparsable(m), None),
            };
        }
        Ok(Ok(s)) => s,
    };
    for (i, op) in ops.iter().enumerate() {
        let st = style;
        let r = catch(move || match op {
            Op::TickChars(s) => Ok(st.tick_chars(s)),
            Op::TickStrings(v) => {
                let refs: Vec<&str> = v.iter().map(|x| x.as_str()).collect();
                Ok(st.tick_strings(&refs))
            }
            Op::ProgressChars(cl) => Ok(st.progress_chars(&cl.concat())),
            Op::Template(t) => st.template(t),
            Op::WithKey(k, v) => {
                let key: &'static str = Box::leak(k.clone().into_boxed_str());
                Ok(st.with_key(key, tracker(v.clone())))
            }
        });
        style = match r {
            Err(m) => return (Built::Panic(i + 1, site_of(&m), m), None),
            Ok(Err(e)) => {
                let m = e.to_string();
                let t = match op {
                    Op::Template(t) => t.as_str(),
                    _ => "",
                };
                return match parse_err(&m, t) {
                    Some((s, c)) => (Built::Err(i + 1, s, c), None),
                    None => (Built::Unparsable(m), None),
                };
            }
            Ok(Ok(s)) => s,
        };
    }
    (Built::Ok, Some(style))
}

// ------------------------------------------------------------------ draw probes
#[derive(Clone, Debug)]
struct St {
    pos: u64,
    len: Option<u64>,
    ticks: u32,
    fin: u8, // 0 in progress, 1 finish, 2 abandon, 3 finish_and_clear, 4 finish_with_message, 5 abandon_with_message
    msg: String,
    prefix: String,
    step_ns: u64,
    tab: usize,
    /// time scenario run after set_position (mock clock advanced by hand):
    /// 0 none; 1 slow huge bar: +1.5 s, inc(1); 2 stalled bar: 10 x (+100 ms, inc(10)), +60 s tick,
    /// +240 s tick, +1 h tick; 3 huge elapsed: +10^18 ns, tick, inc(1), +10^18 ns, tick
    scen: u8,
}

const SCEN: [&str; 4] = ["none", "slow-huge-bar", "stalled-bar", "huge-elapsed"];

impl St {
    fn show(&self) -> String {
        format!(
            "pos={} len={:?} ticks={} fin={} msg=\"{}\" prefix=\"{}\" step={}ns tab={} time={}",
            self.pos,
            self.len,
            self.ticks,
            self.fin,
            esc(&self.msg),
            esc(&self.prefix),
            self.step_ns,
            self.tab,
            SCEN[self.scen as usize]
        )
    }
}

struct ProbeRes {
    panic: Option<(String, String)>, // (call, message)
    frames: usize,
    bad_width: Option<String>,
    /// public getters after the calls (None if a call panicked): eta().as_secs() == u64::MAX,
    /// duration() == Duration::MAX, elapsed() above 10 years
    eta_sat: bool,
    dur_max: bool,
    elapsed_huge: bool,
}

fn probe(style: &ProgressStyle, st: &St, tw: u16, th: u16) -> ProbeRes {
    use indicatif::verif_clock::{advance_clock_ns, set_clock_ns, ORIGIN_NS};
    set_clock_ns(ORIGIN_NS); // every probe starts at the same instant (scenarios advance it by decades)
    indicatif::verif_clock::set_auto_step_ns(st.step_ns);
    let spy = Spy::new(tw, th);
    let mut res = ProbeRes { panic: None, frames: 0, bad_width: None, eta_sat: false, dur_max: false, elapsed_huge: false };
    let pb = match catch(|| {
        let pb = ProgressBar::with_draw_target(st.len, ProgressDrawTarget::term_like(Box::new(spy.clone())))
            .with_tab_width(st.tab);
        pb.set_style(style.clone());
        pb
    }) {
        Ok(pb) => pb,
        Err(m) => {
            res.panic = Some(("set_style".into(), m));
            return res;
        }
    };
    let mut calls: Vec<(String, Box<dyn Fn(&ProgressBar)>)> = vec![];
    let (p, m) = (st.prefix.clone(), st.msg.clone());
    calls.push(("set_prefix".into(), Box::new(move |pb| pb.set_prefix(p.clone()))));
    calls.push(("set_message".into(), Box::new(move |pb| pb.set_message(m.clone()))));
    let pos = st.pos;
    calls.push(("set_position".into(), Box::new(move |pb| pb.set_position(pos))));
    match st.scen {
        1 => calls.push(("+1.5s inc(1)".into(), Box::new(|pb| { advance_clock_ns(1_500_000_000); pb.inc(1) }))),
        2 => {
            for i in 0..10 {
                calls.push((format!("+100ms inc(10) #{i}"), Box::new(|pb| { advance_clock_ns(100_000_000); pb.inc(10) })));
            }
            for (name, ns) in [("+60s tick", 60_000_000_000u64), ("+240s tick", 240_000_000_000), ("+1h tick", 3_600_000_000_000)] {
                calls.push((name.into(), Box::new(move |pb| { advance_clock_ns(ns); pb.tick() })));
            }
        }
        3 => {
            calls.push(("+1e18ns tick".into(), Box::new(|pb| { advance_clock_ns(1_000_000_000_000_000_000); pb.tick() })));
            calls.push(("inc(1)".into(), Box::new(|pb| pb.inc(1))));
            calls.push(("+1e18ns tick".into(), Box::new(|pb| { advance_clock_ns(1_000_000_000_000_000_000); pb.tick() })));
        }
        _ => {}
    }
    for i in 0..st.ticks {
        calls.push((format!("tick#{i}"), Box::new(|pb| pb.tick())));
    }
    calls.push(("force_draw".into(), Box::new(|pb| pb.force_draw())));
    if st.scen != 0 {
        // what the time getters say at this point (public API), to show the scenario did saturate
        calls.push(("getters".into(), Box::new(|_| {})));
    }
    match st.fin {
        1 => calls.push(("finish".into(), Box::new(|pb| pb.finish()))),
        2 => calls.push(("abandon".into(), Box::new(|pb| pb.abandon()))),
        3 => calls.push(("finish_and_clear".into(), Box::new(|pb| pb.finish_and_clear()))),
        4 => calls.push(("finish_with_message".into(), Box::new(|pb| pb.finish_with_message("done \u{65e5}\t!")))),
        5 => calls.push(("abandon_with_message".into(), Box::new(|pb| pb.abandon_with_message("gone")))),
        _ => {}
    }
    if st.fin != 0 {
        calls.push(("force_draw(finished)".into(), Box::new(|pb| pb.force_draw())));
        calls.push(("tick(finished)".into(), Box::new(|pb| pb.tick())));
    }
    for (name, f) in &calls {
        if let Err(m) = catch(|| f(&pb)) {
            res.panic = Some((name.clone(), m));
            break;
        }
        if name == "getters" {
            if let Ok((e, d, el)) = catch(|| (pb.eta(), pb.duration(), pb.elapsed())) {
                res.eta_sat = e.as_secs() == u64::MAX;
                res.dur_max = d == std::time::Duration::MAX;
                res.elapsed_huge = el.as_secs() > 315_360_000;
            }
        }
    }
    for o in spy.take() {
        if let TOp::Str(s) = &o {
            if !s.is_empty() {
                res.frames += 1;
            }
            if console::measure_text_width(s) > s.len() && res.bad_width.is_none() {
                res.bad_width = Some(s.clone());
            }
        }
    }
    if res.panic.is_some() {
        // dropping the bar would draw again (and panic outside `catch`, or abort while unwinding)
        std::mem::forget(pb);
    } else if let Err(m) = catch(move || drop(pb)) {
        res.panic = Some(("drop".into(), m));
    }
    indicatif::verif_clock::set_auto_step_ns(0);
    res
}

fn panic_kind(m: &str) -> &'static str {
    if m.contains("divide by zero") {
        "div-zero"
    } else if m.contains("remainder with a divisor of zero") {
        "rem-zero"
    } else if m.contains("index out of bounds") || m.contains("out of range") {
        "index"
    } else if m.contains("overflow when") || m.contains("overflow in Duration") {
        "duration-overflow" // core::time: Duration + Duration, Duration::new, ...
    } else if m.contains("with overflow") {
        "arith-overflow"
    } else if m.contains("capacity overflow") {
        "capacity"
    } else if m.contains("Option::unwrap()") || m.contains("Result::unwrap()") {
        "unwrap"
    } else if m.contains("byte index") || m.contains("char boundary") {
        "str-slice"
    } else if m.contains("PoisonError") {
        "poisoned"
    } else {
        "other"
    }
}

// ------------------------------------------------------------------ one case
struct Case {
    ctor: Ctor,
    ops: Vec<Op>,
    states: Vec<(St, u16, u16)>,
    tick_idx: Vec<u64>,
    /// frame-counter plans; only for templates made of printable ASCII literals and newlines
    frames: Vec<FramePlan>,
}

/// Successive draws of ONE bar on a terminal of width `tw`; before each step the terminal height is
/// set to the step's value.  Action 0 = force_draw(), 1 = finish_and_clear() (draws an empty frame
/// and leaves the bar hidden, so every later frame is empty too).
#[derive(Clone, Debug)]
struct FramePlan {
    tw: u16,
    steps: Vec<(u8, u16)>,
}

/// the lines format_state produces for a literal-only template: its '\n'-separated pieces, the
/// last one only if it is not empty (style.rs:391-399)
fn literal_lines(t: &str) -> Vec<usize> {
    let mut v: Vec<usize> = t.split('\n').map(|l| l.len()).collect();
    if v.last() == Some(&0) {
        v.pop();
    }
    v
}

/// Runs a plan; per step (line widths of the frame, height, number of clear_line calls observed).
fn run_frames(style: &ProgressStyle, template: &str, plan: &FramePlan) -> Result<Vec<(Vec<usize>, u16, usize)>, String> {
    indicatif::verif_clock::set_clock_ns(indicatif::verif_clock::ORIGIN_NS);
    indicatif::verif_clock::set_auto_step_ns(0);
    let spy = Spy::new(plan.tw, 24);
    let pb = catch(|| {
        let pb = ProgressBar::with_draw_target(Some(3), ProgressDrawTarget::term_like(Box::new(spy.clone())));
        pb.set_style(style.clone());
        pb
    })?;
    let mut out = vec![];
    let mut hidden = false;
    for (act, th) in &plan.steps {
        spy.set_size(plan.tw, *th);
        spy.take();
        let r = catch(|| match act {
            0 => pb.force_draw(),
            _ => pb.finish_and_clear(),
        });
        if let Err(m) = r {
            std::mem::forget(pb);
            return Err(m);
        }
        if *act != 0 {
            hidden = true;
        }
        let clears = spy.take().iter().filter(|o| matches!(o, TOp::Clear)).count();
        out.push((if hidden { vec![] } else { literal_lines(template) }, *th, clears));
    }
    if let Err(m) = catch(move || drop(pb)) {
        return Err(m);
    }
    Ok(out)
}

fn case_desc(c: &Case) -> String {
    format!(
        "{}{} | {} probes, ticks {:?}",
        c.ctor.show(),
        c.ops.iter().map(|o| format!(".{}", o.show())).collect::<String>(),
        c.states.len(),
        c.tick_idx
    )
}

/// the tick strings the documentation says the style has after the calls
fn expected_ticks(ops: &[Op]) -> Vec<String> {
    let mut t: Vec<String> = "⠁⠁⠉⠙⠚⠒⠂⠂⠒⠲⠴⠤⠄⠄⠤⠠⠠⠤⠦⠖⠒⠐⠐⠒⠓⠋⠉⠈⠈ ".chars().map(|c| c.to_string()).collect();
    for o in ops {
        match o {
            Op::TickChars(s) => t = s.chars().map(|c| c.to_string()).collect(),
            Op::TickStrings(v) => t = v.clone(),
            _ => {}
        }
    }
    t
}

/// Runs one case; returns the outcome line used for the debug/release comparison.
fn run_case(s: &mut Session, c: &Case, child: bool) -> String {
    let desc = case_desc(c);
    let (built, style) = build(&c.ctor, &c.ops);
    s.count(&format!("ctor:{}", match c.ctor { Ctor::DefaultBar => "default_bar", Ctor::DefaultSpinner => "default_spinner", Ctor::WithTemplate(_) => "with_template" }));
    for o in &c.ops {
        s.count(&format!("op:{}", o.name()));
        match o {
            Op::TickChars(t) => s.count(&format!("tick_chars:n={}", t.chars().count().min(11))),
            Op::TickStrings(v) => s.count(&format!("tick_strings:n={}", v.len().min(11))),
            Op::ProgressChars(cl) => {
                let ws: std::collections::BTreeSet<usize> = cl.iter().map(|x| meas(x)).collect();
                s.count(&format!("progress_chars:n={}", cl.len().min(11)));
                s.count(&format!("progress_chars:widths={:?}", ws));
            }
            _ => {}
        }
    }
    // ---- oracle, build side: the documented rule decides
    let mut first_reject: Option<(usize, &'static str)> = None;
    for (i, o) in c.ops.iter().enumerate() {
        if let Some(r) = o.documented_reject() {
            first_reject = Some((i + 1, r));
            break;
        }
    }
    let obs = match &built {
        Built::Ok => {
            s.count("build:ok");
            if let Some((i, r)) = first_reject {
                s.fail(&format!("accepted-{r}"), format!("call #{i} {} must be rejected ({r}) but every call returned a style", c.ops[i - 1].show()), desc.clone());
            }
            "ObsBuilt".to_string()
        }
        Built::Err(i, st, ch) => {
            s.count("build:template-error");
            // a TemplateError is not a panic; a documented rejection BEFORE it must have fired
            if let Some((j, r)) = first_reject {
                if j < *i {
                    s.fail(&format!("accepted-{r}"), format!("call #{j} must be rejected ({r}) but the chain went on to call #{i}"), desc.clone());
                }
            }
            format!("ObsErr {} S{} {}", i, STATES[*st], *ch as u32)
        }
        Built::Panic(i, site, m) => {
            s.count(&format!("build:panic-site-{site}"));
            match first_reject {
                Some((j, r)) if j == *i => {
                    let want = match (r, &c.ops[j - 1]) {
                        ("ticks-lt2", Op::TickChars(_)) => 118,
                        ("ticks-lt2", _) => 133,
                        ("chars-lt2", _) => 148,
                        ("unequal-width", _) => 64,
                        ("tab-in-chars", _) => 158,
                        _ => 153,
                    };
                    if *site != want {
                        s.fail(&format!("reject-message-{r}"), format!("call #{i} rejected with an unexpected message: {m}"), desc.clone());
                    }
                }
                Some((j, r)) if j < *i => s.fail(&format!("accepted-{r}"), format!("call #{j} must be rejected ({r}) but the panic came from call #{i}: {m}"), desc.clone()),
                _ => s.fail(&format!("rejected-valid-{}", if *i == 0 { "constructor" } else { c.ops[i - 1].name() }), format!("call #{i} panicked on a documented-valid argument: {m}"), desc.clone()),
            }
            format!("ObsPanic {} {}", i, site)
        }
        Built::Unparsable(m) => {
            s.fail("template-error-text", format!("unparsable TemplateError text {m:?}"), desc.clone());
            "ObsErr 0 SLiteral 0".to_string()
        }
    };
    // ---- draw probes
    let mut probes = vec![];
    let mut tprobes = vec![];
    let mut outcome = obs.clone();
    if let Some(style) = &style {
        let want_ticks = expected_ticks(&c.ops);
        for (st, tw, th) in &c.states {
            let r = probe(style, st, *tw, *th);
            s.count(&format!("probe:width={tw}"));
            s.count(&format!("probe:fin={}", st.fin));
            s.count(if r.frames > 0 { "probe:drew" } else { "probe:drew-nothing" });
            s.count(&format!("probe:time={}", SCEN[st.scen as usize]));
            for (b, k) in [(r.eta_sat, "time:eta-saturated(u64::MAX s)"), (r.dur_max, "time:duration=Duration::MAX"), (r.elapsed_huge, "time:elapsed>10y")] {
                if b {
                    s.count(k);
                }
            }
            let ok = r.panic.is_none();
            if let Some((call, m)) = &r.panic {
                // narrow class: which configuration, which kind of panic
                let cfg = if st.tab > isize::MAX as usize && m.contains("capacity overflow") {
                    "tab-width-huge".to_string()
                } else if want_ticks.len() < 2 {
                    "ticks-lt2".to_string()
                } else if let Some((_, rj)) = first_reject {
                    rj.to_string()
                } else if st.scen != 0 && panic_kind(m) == "duration-overflow" {
                    format!("{}-duration-overflow", SCEN[st.scen as usize])
                } else if *tw == 0 {
                    format!("width0-{}", panic_kind(m))
                } else {
                    panic_kind(m).to_string()
                };
                if cfg == "tab-width-huge" && !REPORT_TAB_FINDING {
                    // switch for a tree without the D24 entry in known_findings.json: count only
                    s.count("unregistered-finding:draw-panic-tab-width-huge");
                } else {
                    s.fail(&format!("draw-panic-{cfg}"), format!("{call} panicked on a built style: {m} [{} tw={tw} th={th}]", st.show()), desc.clone());
                }
            }
            if let Some(line) = &r.bad_width {
                s.fail("width-exceeds-bytes", format!("measure_text_width > len for drawn line {:?}", esc(line)), desc.clone());
            }
            for t in [&st.msg, &st.prefix] {
                if console::measure_text_width(t) > t.len() {
                    s.fail("width-exceeds-bytes", format!("measure_text_width > len for {:?}", esc(t)), desc.clone());
                }
            }
            probes.push(format!(
                "({}, {}, {}, {}, ({}, {}, {}), ({}, {}, {}), {}, {}, {}, {})",
                st.pos,
                copt(st.len.map(|x| x.to_string())),
                st.ticks,
                cbool(st.fin != 0),
                st.msg.len(),
                console::measure_text_width(&st.msg),
                cbool(st.msg.contains('\t')),
                st.prefix.len(),
                console::measure_text_width(&st.prefix),
                cbool(st.prefix.contains('\t')),
                st.tab,
                tw,
                th,
                cbool(ok)
            ));
            outcome.push(if ok { '+' } else { '!' });
        }
        // ---- public tick string getters
        let mut idxs: Vec<Option<u64>> = c.tick_idx.iter().map(|x| Some(*x)).collect();
        idxs.push(None);
        for idx in idxs {
            let got = catch(|| match idx {
                Some(i) => style.get_tick_str(i).to_string(),
                None => style.get_final_tick_str().to_string(),
            });
            let want = if want_ticks.len() >= 2 {
                Some(match idx {
                    Some(i) => want_ticks[(i % (want_ticks.len() as u64 - 1)) as usize].clone(),
                    None => want_ticks[want_ticks.len() - 1].clone(),
                })
            } else {
                None
            };
            match (&got, &want) {
                (Ok(g), Some(w)) if g == w => {}
                (Ok(g), Some(w)) => s.fail("tick-str-selection", format!("tick string for {idx:?} is {:?}, documented {:?}", esc(g), esc(w)), desc.clone()),
                (Err(m), _) => s.fail(&format!("tick-str-panic-{}", if want_ticks.len() < 2 { "ticks-lt2" } else { panic_kind(m) }), format!("get_tick_str({idx:?}) panicked: {m}"), desc.clone()),
                (Ok(_), None) => {}
            }
            s.count(&format!("tickprobe:{}", match idx { None => "final", Some(i) if i < 64 => "small", Some(i) if i < (1 << 33) => "2^32", _ => "huge" }));
            tprobes.push(format!(
                "({}, {})",
                copt(idx.map(|x| x.to_string())),
                copt(got.as_ref().ok().map(|g| cstr(g)))
            ));
            outcome.push_str(&match &got { Ok(g) => format!("[{}]", esc(g)), Err(_) => "[!]".into() });
        }
    }
    // ---- the frame counter across draws (draw_to_term: cap at the height, break, empty frames)
    let mut fprobes = vec![];
    if let (Some(style), Ctor::WithTemplate(t)) = (&style, &c.ctor) {
        for plan in &c.frames {
            match run_frames(style, t, plan) {
                Err(m) => s.fail(&format!("draw-panic-frames-{}", panic_kind(&m)), format!("frame plan {plan:?} panicked: {m}"), desc.clone()),
                Ok(steps) => {
                    let mut prev_empty = false;
                    for (ls, th, clears) in &steps {
                        s.count(&format!("frame:{}", if ls.is_empty() { "empty" } else if *th == 0 { "height0" } else { "lines" }));
                        // oracle: the redrawn region is never taller than the terminal; nothing to erase after an empty frame
                        if *clears > *th as usize {
                            s.fail("frame-clears-exceed-height", format!("{clears} rows cleared on a terminal of height {th} ({plan:?})"), desc.clone());
                        }
                        if prev_empty && *clears != 0 {
                            s.fail("frame-count-after-empty", format!("{clears} rows cleared right after an empty frame ({plan:?})"), desc.clone());
                        }
                        prev_empty = ls.is_empty();
                        if *clears > 0 && *clears == *th as usize {
                            s.count("frame:capped-or-full");
                        }
                    }
                    fprobes.push(format!(
                        "({}, {})",
                        plan.tw,
                        clist(steps.iter().map(|(ls, th, cl)| format!("({}, {}, {})", clist(ls.iter().map(|w| w.to_string())), th, cl)))
                    ));
                    outcome.push_str(&format!("{{{}}}", steps.iter().map(|x| x.2.to_string()).collect::<Vec<_>>().join(",")));
                }
            }
        }
    }
    if !child {
        let coq = format!(
            "({}, {}, {}, {}, {}, {})",
            c.ctor.coq(),
            clist(c.ops.iter().map(|o| o.coq())),
            obs,
            clist(probes),
            clist(tprobes),
            clist(fprobes)
        );
        let nontrivial = !c.ops.is_empty() || matches!(c.ctor, Ctor::WithTemplate(_));
        s.case(coq, desc, nontrivial);
    } else {
        s.oracle_only(desc, true);
    }
    outcome
}

// ------------------------------------------------------------------ generators
const KEYS: &[&str] = &[
    "bar", "wide_bar", "spinner", "prefix", "msg", "wide_msg", "pos", "human_pos", "len", "human_len", "percent",
    "percent_precise", "bytes", "total_bytes", "decimal_bytes", "decimal_total_bytes", "binary_bytes",
    "binary_total_bytes", "elapsed_precise", "elapsed", "per_sec", "bytes_per_sec", "decimal_bytes_per_sec",
    "binary_bytes_per_sec", "eta_precise", "eta", "duration_precise", "duration",
];
const WIDTHS: &[&str] = &["", "", "0", "1", "2", "3", "5", "10", "20", "79", "80", "81", "255", "1000", "65535", "65536", "99999", "+7"];
const STYLES: &[&str] = &["", "", ".red", ".bold.on_blue", ".green/yellow", ".cyan/blue.dim", ".nonsense", ".on_256/7"];
const TEXTS: &[&str] = &[
    "", "x", "msg", "hello world", "\u{65e5}\u{672c}\u{8a9e}", "e\u{301}e\u{301}e\u{301}", "a\tb", "two\nlines", "\t", "\n",
    "\u{1b}[31mred\u{1b}[0m", "\u{1f468}\u{200d}\u{1f469}\u{200d}\u{1f467} fam", "\u{200b}\u{200b}", "\u{17d8}\u{17d8}",
    "0123456789012345678901234567890123456789012345678901234567890123456789012345678901234567890123456789",
    "\u{ff21}\u{ff22}\u{ff23}\u{ff24}\u{ff25}\u{ff26}\u{ff27}\u{ff28}", "\u{2764}\u{fe0f}\u{2764}\u{fe0f}", "trailing   ", "\r\n",
];
const TERM_WIDTHS: [u16; 7] = [0, 1, 2, 3, 10, 80, 65535];
/// `ProgressBar::with_tab_width(n)` with n > isize::MAX panics in the draw (capacity overflow in
/// `" ".repeat(tab_width)`) when the template has a with_key key or {spinner} (TabRewriter) or a
/// drawn text has a tab: theorem C14_huge_tab_refuted, reproduced by the corpus below; open known
/// finding D24, class `draw-panic-tab-width-huge` (reported through `s.fail`, matched by class).
const REPORT_TAB_FINDING: bool = true;

fn gen_clusters(r: &mut Rng, n: usize, kind: u64) -> Vec<String> {
    (0..n)
        .map(|i| {
            let pool: &[&str] = match kind {
                0 => CL_W1,
                1 => CL_W2,
                2 => CL_W0,
                _ => match (r.below(5), i) {
                    (0, _) => CL_W2,
                    (1, _) => CL_W0,
                    _ => CL_W1,
                },
            };
            if r.chance(1, 12) {
                "\t".to_string() // its own cluster (Control); rejected since 6ff82af
            } else {
                r.pick(pool).to_string()
            }
        })
        .collect()
}

fn gen_count(r: &mut Rng) -> usize {
    *r.pick(&[0usize, 1, 2, 2, 3, 3, 10, 4, 5])
}

fn gen_tick_op(r: &mut Rng) -> Op {
    let n = gen_count(r);
    if r.chance(1, 2) {
        let pool: Vec<char> = "-\\|/+x ⠁⠉⠙日本é\u{301}\u{200b}🕐🕑\t".chars().collect();
        Op::TickChars((0..n).map(|_| *r.pick(&pool)).collect())
    } else {
        let pool = ["", "-", "ab", "⠁", "日本", "\u{1f468}\u{200d}\u{1f469}\u{200d}\u{1f467}", "▹▹▸", "e\u{301}", "\t", "a\tb", "\t\t", " ", "done"];
        Op::TickStrings((0..n).map(|_| r.pick(&pool).to_string()).collect())
    }
}

fn gen_pchars_op(r: &mut Rng) -> Op {
    let n = gen_count(r);
    let kind = *r.pick(&[0u64, 0, 0, 1, 1, 2, 3, 3]);
    Op::ProgressChars(gen_clusters(r, n, kind))
}

fn gen_placeholder(r: &mut Rng, custom: &[String]) -> String {
    let key = match r.below(12) {
        0 => "nope".to_string(),
        1 if !custom.is_empty() => r.pick(custom).clone(),
        2 | 3 => r.pick(&["bar", "wide_bar", "spinner", "wide_msg", "msg", "per_sec"]).to_string(),
        _ => r.pick(KEYS).to_string(),
    };
    let mut o = format!("{{{key}");
    if r.chance(2, 3) {
        o.push(':');
        o.push_str(*r.pick(&["", "", "<", "^", ">"]));
        o.push_str(*r.pick(WIDTHS));
        if r.chance(1, 3) {
            o.push('!');
        }
        o.push_str(*r.pick(STYLES));
    }
    o.push('}');
    o
}

fn gen_template(r: &mut Rng, custom: &[String]) -> String {
    let n = r.below(7);
    let mut t = String::new();
    for _ in 0..n {
        match r.below(10) {
            0 => t.push('\n'),
            1 => t.push_str(*r.pick(&["{{", "}}", "\t", " ", "[", "] ", "\u{65e5}", "e\u{301}", "{ ", "{\n", "/"])),
            2 => t.push_str(*r.pick(&["abc ", "ETA: ", "(", ")", " | "])),
            _ => t.push_str(&gen_placeholder(r, custom)),
        }
    }
    t
}

fn gen_junk(r: &mut Rng) -> String {
    let pool: Vec<char> = "{}{}::!<^>.0919abr_ /\n\t日".chars().collect();
    let n = r.below(14);
    (0..n).map(|_| *r.pick(&pool)).collect()
}

fn gen_any_template(r: &mut Rng, custom: &[String]) -> String {
    if r.chance(1, 6) {
        gen_junk(r)
    } else {
        gen_template(r, custom)
    }
}

fn all_keys_template() -> String {
    KEYS.iter().map(|k| format!("{{{k}}} ")).collect::<String>() + "\n" + &KEYS.iter().map(|k| format!("{{{k}:>9!.red/blue}}")).collect::<String>()
}

fn gen_state(r: &mut Rng) -> St {
    const M: u64 = u64::MAX;
    let (pos, len) = *r.pick(&[
        (0, None), (5, None), (M, None), (0, Some(0)), (1, Some(0)), (0, Some(1)), (0, Some(10)), (1, Some(10)), (9, Some(10)),
        (10, Some(10)), (11, Some(10)), (1 << 32, Some((1 << 32) + 1)), ((1 << 32) + 1, Some(1 << 32)), (M, Some(M)),
        (M - 1, Some(M)), (M, Some(1)), (3, Some(M)), (1 << 24, Some((1 << 24) + 1)), (1, Some(3)), (2, Some(3)),
    ]);
    St {
        pos,
        len,
        ticks: *r.pick(&[0u32, 0, 1, 2, 3, 9, 10, 29, 30, 31]),
        fin: *r.pick(&[0u8, 0, 0, 1, 2, 3, 4, 5]),
        msg: r.pick(TEXTS).to_string(),
        prefix: r.pick(TEXTS).to_string(),
        step_ns: *r.pick(&[0u64, 0, 1_000, 1_000_000, 1_000_000_000, 1_000_000_000_000_000]),
        tab: *r.pick(&[8usize, 8, 0, 1, 4, 13, 1000, 5000, 65536]),
        scen: *r.pick(&[0u8, 0, 0, 0, 0, 1, 2, 3]),
    }
}

fn gen_states(r: &mut Rng, per_width: usize) -> Vec<(St, u16, u16)> {
    let mut v = vec![];
    for _ in 0..per_width {
        for tw in TERM_WIDTHS {
            let th = *r.pick(&[24u16, 24, 24, 0, 1, 2, 65535]);
            v.push((gen_state(r), tw, th));
        }
    }
    v
}

fn tick_indices(r: &mut Rng, ops: &[Op]) -> Vec<u64> {
    let n = expected_ticks(ops).len() as u64;
    let mut v = vec![0, 1, n.saturating_sub(2), n.saturating_sub(1), n, 1 << 32, u64::MAX, u64::MAX - 1];
    v.push(r.next());
    v.push(r.below(100));
    v
}

fn gen_case(r: &mut Rng, per_width: usize) -> Case {
    let mut custom: Vec<String> = vec![];
    let nops = *r.pick(&[0usize, 1, 1, 2, 2, 3, 4]);
    let mut ops = vec![];
    let pre_custom: Vec<String> = if r.chance(1, 3) { vec!["ck".into()] } else { vec![] };
    let ctor = match r.below(4) {
        0 => Ctor::DefaultBar,
        1 => Ctor::DefaultSpinner,
        _ => Ctor::WithTemplate(gen_any_template(r, &pre_custom)),
    };
    for k in &pre_custom {
        custom.push(k.clone());
    }
    for _ in 0..nops {
        ops.push(match r.below(10) {
            0..=2 => gen_tick_op(r),
            3..=5 => gen_pchars_op(r),
            6..=7 => Op::Template(gen_any_template(r, &custom)),
            _ => {
                let k = r.pick(&["ck", "ck", "bar", "spinner", "msg", "wide_bar", "zz"]).to_string();
                custom.push(k.clone());
                Op::WithKey(k, r.pick(TEXTS).to_string())
            }
        });
    }
    for k in &pre_custom {
        ops.push(Op::WithKey(k.clone(), r.pick(TEXTS).to_string()));
    }
    let states = gen_states(r, per_width);
    let tick_idx = tick_indices(r, &ops);
    Case { ctor, ops, states, tick_idx, frames: vec![] }
}

fn corpus(r: &mut Rng) -> Vec<Case> {
    let s = |x: &str| x.to_string();
    let sv = |xs: &[&str]| xs.iter().map(|x| x.to_string()).collect::<Vec<String>>();
    let mut raw: Vec<(Ctor, Vec<Op>)> = vec![
        // the fixed defects D1 / D15 and their neighbours
        (Ctor::DefaultSpinner, vec![Op::TickStrings(sv(&["a"]))]),
        (Ctor::DefaultSpinner, vec![Op::TickStrings(vec![])]),
        (Ctor::DefaultSpinner, vec![Op::TickStrings(sv(&["a", "b"]))]),
        (Ctor::DefaultSpinner, vec![Op::TickStrings(sv(&["", ""]))]),
        (Ctor::DefaultSpinner, vec![Op::TickChars(s(""))]),
        (Ctor::DefaultSpinner, vec![Op::TickChars(s("x"))]),
        (Ctor::DefaultSpinner, vec![Op::TickChars(s("xy"))]),
        (Ctor::DefaultSpinner, vec![Op::ProgressChars(sv(&["#"])), Op::TickStrings(sv(&["a"]))]),
        (Ctor::DefaultBar, vec![Op::ProgressChars(sv(&["\u{200b}", "\u{200b}"]))]),
        (Ctor::DefaultBar, vec![Op::ProgressChars(sv(&["\u{200b}", "\u{2060}", "\u{feff}"]))]),
        (Ctor::DefaultBar, vec![Op::ProgressChars(vec![])]),
        (Ctor::DefaultBar, vec![Op::ProgressChars(sv(&["#"]))]),
        (Ctor::DefaultBar, vec![Op::ProgressChars(sv(&["#", "-"]))]),
        (Ctor::DefaultBar, vec![Op::ProgressChars(sv(&["#", ">", "-"]))]),
        (Ctor::DefaultBar, vec![Op::ProgressChars(sv(&["\u{2588}", "\u{2589}", "\u{258a}", "\u{258b}", "\u{258c}", "\u{258d}", "\u{258e}", "\u{258f}", " ", "."]))]),
        (Ctor::DefaultBar, vec![Op::ProgressChars(sv(&["\u{65e5}", "\u{672c}"]))]),
        (Ctor::DefaultBar, vec![Op::ProgressChars(sv(&["\u{65e5}", "a"]))]),
        (Ctor::DefaultBar, vec![Op::ProgressChars(sv(&["a", "\u{200b}"]))]),
        (Ctor::DefaultBar, vec![Op::ProgressChars(sv(&["\u{1f468}\u{200d}\u{1f469}\u{200d}\u{1f467}", "\u{1f44d}", "\u{1f1e9}\u{1f1ea}"]))]),
        (Ctor::DefaultBar, vec![Op::ProgressChars(sv(&["e\u{301}", "o\u{308}\u{304}", "a"]))]),
        (Ctor::DefaultBar, vec![Op::ProgressChars(sv(&["\u{2764}\u{fe0f}", "\u{65e5}"]))]),
        // an accepted call after a rejected-looking one replaces it; a later bad call still panics
        (Ctor::DefaultBar, vec![Op::ProgressChars(sv(&["#", "-"])), Op::TickChars(s("ab")), Op::ProgressChars(sv(&["\u{65e5}", "-"]))]),
        // templates: every key, wide elements, zero / huge widths, the zero-width-terminal fix 1ac360f
        (Ctor::WithTemplate(all_keys_template()), vec![Op::ProgressChars(sv(&["\u{65e5}", "\u{672c}", "\u{8a9e}"]))]),
        (Ctor::WithTemplate(s("\nabc")), vec![]),
        (Ctor::WithTemplate(s("\n\n\n")), vec![]),
        (Ctor::WithTemplate(s("")), vec![]),
        (Ctor::WithTemplate(s("{bar:65535}{per_sec:65535}{msg:65535!}")), vec![]),
        (Ctor::WithTemplate(s("{bar:65536}")), vec![]),
        (Ctor::WithTemplate(s("{bar:0}{msg:0!}{prefix:>0!}{spinner:^0!}{wide_bar}")), vec![Op::ProgressChars(sv(&["\u{65e5}", "\u{672c}"]))]),
        (Ctor::WithTemplate(s("{msg:3!} {msg:^3!} {msg:>3!} {prefix:^1!}")), vec![]),
        (Ctor::WithTemplate(s("{wide_msg}")), vec![]),
        (Ctor::WithTemplate(s("{prefix} {wide_msg:^} {pos}")), vec![]),
        (Ctor::WithTemplate(s("{wide_bar}{wide_msg}\n{wide_bar}\n{spinner}")), vec![Op::TickStrings(sv(&["\u{65e5}\u{672c}", "", "x"]))]),
        (Ctor::WithTemplate(s("{wide_bar:.red/blue} {bar:^7.green} {spinner:3}")), vec![Op::ProgressChars(sv(&["\u{1f44d}", "\u{1f1e9}\u{1f1ea}"])), Op::TickChars(s("\u{1f550}\u{1f551}\u{1f552}"))]),
        (Ctor::WithTemplate(s("{ck} {bar} {ck:5!}")), vec![Op::WithKey(s("ck"), s("\u{65e5}\u{672c}\u{8a9e}\tx")), Op::WithKey(s("bar"), s("BAR"))]),
        // 6ff82af: a TAB in progress_chars is rejected (after the other checks), TABs in tick strings are fine
        (Ctor::DefaultBar, vec![Op::ProgressChars(sv(&["#", "\t"]))]),
        (Ctor::DefaultBar, vec![Op::ProgressChars(sv(&["\t", "\t"]))]),
        (Ctor::DefaultBar, vec![Op::ProgressChars(sv(&["\t", "#", "-"]))]),
        (Ctor::DefaultBar, vec![Op::ProgressChars(sv(&["\u{65e5}", "\t"]))]),
        (Ctor::DefaultBar, vec![Op::ProgressChars(sv(&["\t"]))]),
        (Ctor::DefaultBar, vec![Op::ProgressChars(sv(&["\u{200b}", "\t"]))]),
        (Ctor::WithTemplate(s("{spinner}|{spinner:3}|{spinner:>9!}")), vec![Op::TickStrings(sv(&["\t", "a\tb", "\t\t", "x"]))]),
        (Ctor::WithTemplate(s("{spinner} {msg}")), vec![Op::TickChars(s("\t\t"))]),
        (Ctor::DefaultSpinner, vec![Op::TickChars(s("a\tb"))]),
        (Ctor::DefaultBar, vec![Op::Template(s("{bar"))]),
        (Ctor::DefaultBar, vec![Op::Template(s("{:}")), Op::TickChars(s(""))]),
        (Ctor::DefaultBar, vec![Op::TickChars(s("")), Op::Template(s("{:}"))]),
    ];
    // every number of tick strings / progress characters 0,1,2,3,10 x every width class
    for n in [0usize, 1, 2, 3, 10] {
        raw.push((Ctor::WithTemplate(s("{spinner}{bar:10}{wide_bar}")), vec![Op::TickStrings((0..n).map(|i| format!("t{i}")).collect())]));
        raw.push((Ctor::WithTemplate(s("{spinner}{bar:10}{wide_bar}")), vec![Op::TickChars("abcdefghij"[..n].to_string())]));
        for kind in 0..4 {
            let cl = gen_clusters(r, n, kind);
            raw.push((Ctor::WithTemplate(s("{spinner}{bar:10}{wide_bar}")), vec![Op::ProgressChars(cl)]));
        }
    }
    let mut v: Vec<Case> = raw.into_iter()
        .map(|(ctor, ops)| {
            let mut states = gen_states(r, 1);
            // the boundary states on the narrowest and the widest terminal
            for tw in [0u16, 1, 65535] {
                for (pos, len, fin) in [(0u64, Some(0u64), 0u8), (u64::MAX, Some(u64::MAX), 1), (u64::MAX, None, 0), (1, Some(3), 2)] {
                    states.push((St { pos, len, ticks: 3, fin, msg: "\u{65e5}\u{672c}\u{8a9e} msg".into(), prefix: "p\t".into(), step_ns: 1_000_000, tab: 8, scen: 0 }, tw, 24));
                }
            }
            let tick_idx = tick_indices(r, &ops);
            Case { ctor, ops, states, tick_idx, frames: vec![] }
        })
        .chain(huge_tab_cases())
        .collect();
    v.extend(frame_cases(r));
    v.extend(time_cases());
    v
}

/// tab widths above isize::MAX (the refuted clause) and just below a sane bound
fn huge_tab_cases() -> Vec<Case> {
    let s = |x: &str| x.to_string();
    let mk = |tpl: &str, ops: Vec<Op>, msg: &str, prefix: &str, tabs: &[usize]| Case {
        ctor: Ctor::WithTemplate(tpl.to_string()),
        ops,
        states: tabs
            .iter()
            .flat_map(|tab| {
                [(80u16, 24u16), (0, 24)].into_iter().map(move |(tw, th)| {
                    (St { pos: 1, len: Some(3), ticks: 2, fin: 0, msg: msg.to_string(), prefix: prefix.to_string(), step_ns: 1000, tab: *tab, scen: 0 }, tw, th)
                })
            })
            .collect(),
        tick_idx: vec![0, u64::MAX],
        frames: vec![],
    };
    let tabs = [usize::MAX, (isize::MAX as usize) + 1, 4096, 0];
    // tab widths in (4096, isize::MAX]: the class boundary from below.  TAB-free texts and no
    // TabRewriter user (custom key, {spinner}): `" ".repeat(tab_width)` is never evaluated, nothing
    // is allocated, every width up to isize::MAX must draw ...
    let big = [1usize << 20, 1 << 32, 1 << 40, 1 << 62, isize::MAX as usize];
    // ... and where it IS evaluated (one TAB / a custom key / {spinner}) widths that still fit in
    // memory (at most 1 MiB per expansion) must draw as well
    let mid = [4097usize, 65536, 1 << 20];
    let mut v = vec![
        mk("{msg} {prefix} {pos}/{len} {bar:5} {wide_bar}", vec![], "ab", "p", &big),
        mk("lit {wide_msg}", vec![Op::WithKey(s("unused"), s("x"))], "ab", "", &big),
        mk("{spinner} {ck} {msg}", vec![Op::WithKey(s("ck"), s("x"))], "a\tb", "", &mid),
        mk("a\tb {spinner:4}", vec![Op::TickStrings(vec![s("\t"), s("x")])], "", "\t", &mid),
    ];
    v.extend(vec![
        mk("{ck}", vec![Op::WithKey(s("ck"), s("x"))], "m", "", &tabs),
        mk("{ck}", vec![Op::WithKey(s("ck"), s(""))], "m", "", &tabs),
        mk("{msg}", vec![], "a\tb", "", &tabs),
        mk("{msg} {pos}", vec![], "ab", "p", &tabs),
        mk("{prefix:5}", vec![], "ab", "\t", &tabs),
        mk("x{wide_msg}", vec![], "\t", "", &tabs),
        mk("a\tb {pos}", vec![], "", "", &tabs),
        mk("{bar} {spinner}", vec![Op::WithKey(s("unused"), s("x"))], "a\tb", "\t", &tabs),
        mk("{spinner}", vec![], "", "", &tabs),
        mk("{bar} {pos}", vec![Op::WithKey(s("unused"), s("x"))], "a\tb", "\t", &tabs),
    ]);
    v
}

/// Saturated time getters: eta() saturates at u64::MAX seconds (`secs_to_duration` casts an f64),
/// duration() at Duration::MAX (`saturating_add`), elapsed() grows with the mock clock.  Every
/// time key, alone and together, sized / truncated / styled, for bars whose estimate saturates
/// (len = u64::MAX advancing slower than 1 step/s; a 1000-step bar that ran at 100 steps/s and
/// then stalls for minutes and hours; decades of elapsed time).
fn time_cases() -> Vec<Case> {
    let keys = ["eta", "eta_precise", "duration", "duration_precise", "elapsed", "elapsed_precise", "per_sec", "bytes_per_sec", "decimal_bytes_per_sec", "binary_bytes_per_sec"];
    let mut templates: Vec<String> = keys.iter().map(|k| format!("{{{k}}}")).collect();
    templates.push(keys.iter().map(|k| format!("{{{k}}} ")).collect());
    templates.push(keys.iter().map(|k| format!("{{{k}:>12!.red}}|")).collect());
    templates.push("{spinner} {wide_bar} {pos}/{len} {eta} {duration:3!} {per_sec:7} {percent}".to_string());
    let lens: [(Option<u64>, u8); 9] = [
        (Some(u64::MAX), 1), (Some(u64::MAX - 1), 1), (Some(1 << 63), 1), (Some(u64::MAX), 3), (Some(1000), 2),
        (Some(100), 2), (Some(u64::MAX), 2), (None, 3), (Some(5), 3),
    ];
    templates
        .into_iter()
        .map(|t| {
            let mut states = vec![];
            for (len, scen) in lens {
                for (tw, fin) in [(80u16, 0u8), (0, 0), (10, 1), (80, 2)] {
                    states.push((St { pos: 0, len, ticks: 1, fin, msg: "m".into(), prefix: "".into(), step_ns: 0, tab: 8, scen }, tw, 24));
                }
            }
            Case { ctor: Ctor::WithTemplate(t), ops: vec![], states, tick_idx: vec![0], frames: vec![] }
        })
        .collect()
}

/// draw_to_term's counter (dadbe71, 7d42cff): frames taller than the terminal (the loop breaks),
/// a terminal that shrinks between draws (the count is capped at the new height before it is used),
/// empty frames (finish_and_clear), height and width 0
fn frame_cases(r: &mut Rng) -> Vec<Case> {
    let templates = [
        "a", "aaaaaaaaaaaa", "aaaa\nbb\ncccccc", "a\n\nb", "\na", "aaaaaaaaaaaaaaaaaaaaaaaaa\nb\nc\nd\ne\nf", "x\ny\nz\n",
        "0123456789\n0123456789\n0123456789\n0123456789", "",
    ];
    let mut v = vec![];
    for t in templates {
        let mut frames = vec![];
        for tw in [80u16, 10, 3, 1, 0] {
            // a fixed family and a random one
            frames.push(FramePlan { tw, steps: vec![(0, 24), (0, 2), (0, 2), (0, 24), (1, 24), (0, 24)] });
            frames.push(FramePlan { tw, steps: vec![(0, 3), (0, 1), (0, 0), (0, 5), (1, 1), (0, 3)] });
            let steps = (0..6).map(|i| (if i >= 3 && r.chance(1, 3) { 1u8 } else { 0 }, *r.pick(&[0u16, 1, 2, 3, 4, 5, 24, 65535]))).collect();
            frames.push(FramePlan { tw, steps });
        }
        v.push(Case { ctor: Ctor::WithTemplate(t.to_string()), ops: vec![], states: vec![], tick_idx: vec![0], frames });
    }
    v
}

// ------------------------------------------------------------------ source inventory
/// Every textual construction / match of a `TabExpandedString` variant in /repo/src outside the
/// `#[cfg(test)] mod ..` blocks, as (file, enclosing fn, token, count).  This is the list that
/// `Builder.tes_made` (theorem C14_notabs_assert_unreachable) was read from: `new` (NoTabs exactly for
/// tab-free text), the literal `NoTabs("")` of ProgressState::new, `set_tab_width` / `expanded` only
/// match on the variant.  A site that is not in the list fails with `unaudited-tabexpandedstring-site`.
const TES_TOKENS: [&str; 5] = ["TabExpandedString::NoTabs(", "TabExpandedString::WithTabs {", "TabExpandedString::new(", "Self::NoTabs(", "Self::WithTabs {"];
const TES_AUDITED: [(&str, &str, &str, usize); 12] = [
    ("progress_bar.rs", "with_prefix", "TabExpandedString::new(", 1),
    ("progress_bar.rs", "with_message", "TabExpandedString::new(", 1),
    ("progress_bar.rs", "set_prefix", "TabExpandedString::new(", 1),
    ("progress_bar.rs", "set_message", "TabExpandedString::new(", 1),
    ("state.rs", "finish_using_style", "TabExpandedString::new(", 2),
    ("state.rs", "new", "TabExpandedString::NoTabs(", 2), // ProgressState::new: NoTabs("".into()) twice
    ("state.rs", "new", "Self::NoTabs(", 1),              // TabExpandedString::new, tab-free branch
    ("state.rs", "new", "Self::WithTabs {", 1),           // TabExpandedString::new, the other branch
    ("state.rs", "expanded", "Self::NoTabs(", 1),         // match arm (holds the debug_assert)
    ("state.rs", "expanded", "Self::WithTabs {", 1),      // match arm
    ("state.rs", "set_tab_width", "Self::WithTabs {", 1), // if let
    ("style.rs", "from_str_with_tab_width", "TabExpandedString::new(", 4),
];

fn tes_site_inventory(s: &mut Session) {
    let repo = std::env::var("VERIF_REPO").unwrap_or_else(|_| "/repo".into());
    let dir = std::path::Path::new(&repo).join("src");
    let mut found: std::collections::BTreeMap<(String, String, String), usize> = Default::default();
    let mut files: Vec<_> = match std::fs::read_dir(&dir) {
        Ok(d) => d.filter_map(|e| e.ok()).map(|e| e.path()).filter(|p| p.extension().map_or(false, |x| x == "rs")).collect(),
        Err(e) => {
            s.fail("source-inventory", format!("cannot read {}: {e}", dir.display()), "TabExpandedString sites".into());
            return;
        }
    };
    files.sort();
    for f in files {
        let name = f.file_name().unwrap().to_string_lossy().to_string();
        let text = std::fs::read_to_string(&f).unwrap_or_default();
        let lines: Vec<&str> = text.lines().collect();
        let (mut func, mut in_tests) = (String::from("<top>"), false);
        for (i, l) in lines.iter().enumerate() {
            // a test module: `#[cfg(test)]` directly followed by `mod ..` (they end the files of this crate)
            if l.trim_start().starts_with("#[cfg(test)]") && lines.get(i + 1).map_or(false, |n| n.trim_start().starts_with("mod ")) {
                in_tests = true;
            }
            if in_tests {
                continue;
            }
            if let Some(p) = l.find("fn ") {
                let before_ok = p == 0 || !l.as_bytes()[p - 1].is_ascii_alphanumeric() && l.as_bytes()[p - 1] != b'_';
                let id: String = l[p + 3..].chars().take_while(|c| c.is_ascii_alphanumeric() || *c == '_').collect();
                if before_ok && !id.is_empty() && !l.trim_start().starts_with("//") {
                    func = id;
                }
            }
            if l.trim_start().starts_with("//") {
                continue;
            }
            for t in TES_TOKENS {
                let k = l.matches(t).count();
                if k > 0 {
                    *found.entry((name.clone(), func.clone(), t.to_string())).or_insert(0) += k;
                }
            }
        }
    }
    let mut total = 0;
    for ((file, func, tok), k) in &found {
        total += k;
        let audited = TES_AUDITED.iter().find(|a| a.0 == file && a.1 == func && a.2 == tok).map_or(0, |a| a.3);
        if *k > audited {
            s.fail(
                "unaudited-tabexpandedstring-site",
                format!("{file}: fn {func} holds {k} x `{tok}` but the audited list (Builder.tes_made) has {audited}"),
                "source inventory of TabExpandedString constructions".into(),
            );
        }
    }
    for a in TES_AUDITED {
        let k = found.get(&(a.0.to_string(), a.1.to_string(), a.2.to_string())).copied().unwrap_or(0);
        if k < a.3 {
            s.notes.push(format!("audited TabExpandedString site gone or moved: {} fn {} `{}` ({} of {})", a.0, a.1, a.2, k, a.3));
        }
    }
    s.count_n("inventory:tabexpandedstring-sites", total as u64);
    s.oracle_only(format!("source inventory: {total} TabExpandedString construction / match sites in {}", dir.display()), true);
}

// ------------------------------------------------------------------ release twin
fn release_twin(a: &Args, s: &mut Session, outcomes: &[String], descs: &[String]) {
    use std::process::Command;
    // the crate this binary was built from (a throw-away copy of the harness builds its own twin)
    let crate_dir = env!("CARGO_MANIFEST_DIR");
    let target = std::env::var("CARGO_TARGET_DIR").unwrap_or_else(|_| "/verif/.cache/target".into());
    let rustflags = std::env::var("RUSTFLAGS").unwrap_or_else(|_| "--cfg indicatif_verif".into());
    let t0 = std::time::Instant::now();
    let b = Command::new("timeout")
        .args(["900", "cargo", "build", "--offline", "--release", "--bin", "c14"])
        .current_dir(crate_dir)
        .env("CARGO_TARGET_DIR", &target)
        .env("RUSTFLAGS", &rustflags)
        .env("CARGO_NET_OFFLINE", "true")
        .output();
    let ok = matches!(&b, Ok(o) if o.status.success());
    if !ok {
        let why = match b {
            Ok(o) => String::from_utf8_lossy(&o.stderr).chars().rev().take(600).collect::<String>().chars().rev().collect(),
            Err(e) => e.to_string(),
        };
        s.fail("release-build", format!("the release build of the harness failed: {why}"), "cargo build --release --bin c14".into());
        return;
    }
    let build_s = t0.elapsed().as_secs_f64();
    let out = a.out.join("release");
    let _ = std::fs::remove_dir_all(&out);
    let mut cmd = Command::new(format!("{target}/release/c14"));
    cmd.args(["--seed", &a.seed.to_string(), "--tier", if a.thorough { "thorough" } else { "quick" }, "--out"]).arg(&out);
    if a.extended {
        cmd.arg("--extended");
    }
    let run = cmd.env("C14_CHILD", "1").output();
    let okr = matches!(&run, Ok(o) if o.status.success());
    let theirs = std::fs::read_to_string(out.join("outcomes.txt")).unwrap_or_default();
    if !okr || theirs.is_empty() {
        s.fail("release-run", format!("the release build of the harness crashed: {:?}", run.map(|o| String::from_utf8_lossy(&o.stderr).to_string())), "target/release/c14".into());
        return;
    }
    let theirs: Vec<&str> = theirs.lines().collect();
    if theirs.len() != outcomes.len() {
        s.fail("release-differs", format!("{} cases in the release run, {} in the debug run", theirs.len(), outcomes.len()), "case count".into());
    }
    let mut ndiff = 0;
    for (i, (d, r)) in outcomes.iter().zip(theirs.iter()).enumerate() {
        if d != r {
            ndiff += 1;
            if ndiff <= 3 {
                s.fail("release-differs", format!("debug build: {d}  release build: {r}"), descs[i].clone());
            }
        }
    }
    if let Ok(f) = std::fs::read_to_string(out.join("failures.tsv")) {
        for l in f.lines() {
            let p: Vec<&str> = l.splitn(3, '\t').collect();
            if p.len() == 3 {
                // the same defect seen in the release twin keeps its class name (known findings are
                // matched by class); everything else is marked as release-only
                if p[0] == "draw-panic-tab-width-huge" {
                    s.fail(p[0], format!("(release build) {}", p[1]), p[2].to_string());
                } else {
                    s.fail(&format!("release-{}", p[0]), p[1].to_string(), p[2].to_string());
                }
            }
        }
    }
    s.count_n("release:cases", theirs.len() as u64);
    s.count_n("release:differences", ndiff);
    s.notes.push(format!(
        "release twin (overflow checks off): built in {build_s:.1}s, {} cases, {} outcome differences",
        theirs.len(),
        ndiff
    ));
}

fn main() {
    let a = args();
    let child = std::env::var("C14_CHILD").is_ok();
    console::set_colors_enabled(true);
    let header = "From IndModel Require Import Base Template Builder.\nOpen Scope N_scope.\n";
    let mut s = Session::new(&a, "C14", header, "bcase", "builder_check");
    s.shard_size = 60;
    s.rule = "chains constructor(.tick_chars|.tick_strings|.progress_chars|.template|.with_key)* with 0,1,2,3,10 (and more) tick strings / progress clusters of width 0/1/2/mixed (combining marks, ZWJ emoji, flags, CJK, zero-width), templates from the documented grammar (every key, widths 0..65536+, alignment, truncation, styles, wide elements) and junk; every built style drawn on a recording terminal for states (pos/len at 0, 1, len-1, len, len+1, 2^32, 2^64-1, None; finished or not; 19 message/prefix texts; 6 clock regimes) x widths {0,1,2,3,10,80,65535} x heights, and get_tick_str probed at 0,1,n-2,n-1,n,2^32,2^64-2,2^64-1; non-trivial = at least one builder call or a with_template constructor; tab widths 0..65536 at random plus a corpus at 4097, 2^16, 2^20 (expanded) and 2^20..isize::MAX (nothing to expand) and above isize::MAX (D24); 9 literal templates x 15 plans of 6 successive draws with the terminal height changing between draws (taller-than-terminal frames, shrinking terminal, empty frames after finish_and_clear, width/height 0): clear_line calls per draw compared with the model's capped frame counter; time scenarios on the mock clock (slow huge bar, stalled bar, decades of elapsed time: eta() = u64::MAX s, duration() = Duration::MAX) with every time key; distinct = distinct case text".into();
    let mut r = Rng::new(a.seed);
    let mut cases = corpus(&mut r);
    let (n, per_width) = if a.thorough { (6000, 2) } else if a.extended { (3000, 1) } else { (700, 1) };
    for _ in 0..n {
        cases.push(gen_case(&mut r, per_width));
    }
    // facts about the width tables the model takes as data
    for c in ["\u{2588}", "\u{2591}"] {
        if meas(c) != 1 {
            s.fail("default-chars-width", format!("default progress character {c:?} measures {}", meas(c)), "ProgressStyle::new".into());
        }
    }
    for (pool, w) in [(CL_W0, 0usize), (CL_W1, 1), (CL_W2, 2)] {
        for c in pool {
            if meas(c) != w || console::measure_text_width(c) != w {
                s.notes.push(format!("cluster {:?} measures {} (table says {w})", esc(c), meas(c)));
            }
        }
    }
    if !child {
        tes_site_inventory(&mut s);
    }
    let mut outcomes = vec![];
    let mut descs = vec![];
    for c in &cases {
        descs.push(case_desc(c));
        outcomes.push(run_case(&mut s, c, child));
    }
    if child {
        std::fs::write(a.out.join("outcomes.txt"), outcomes.join("\n") + "\n").unwrap();
        let mut f = String::new();
        for x in &s.failures {
            let _ = writeln!(f, "{}\t{}\t{}", x.class, x.detail.replace(['\t', '\n'], " "), x.case.replace(['\t', '\n'], " "));
        }
        std::fs::write(a.out.join("failures.tsv"), f).unwrap();
    } else {
        release_twin(&a, &mut s, &outcomes, &descs);
    }
    s.finish();
}
