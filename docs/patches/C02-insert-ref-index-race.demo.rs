//! Demonstration for the finding candidate `insert-relative-to-concurrently-removed-bar`
//! (property C02, docs/C02.md "Findings").  `cargo test --offline --features in_memory --test stale_index_demo`.
//!
//! `MultiProgress::insert_after(&a, x)` reads `a.index()` under a's bar lock, RELEASES it, and
//! only then takes the MultiState lock for `MultiState::insert(After(idx))`.  A `remove(&a)` (+ an
//! `add(y)`) of another thread can fall in between.  Every sequential order of the three calls
//! either shows `x` directly after `a` (and then `a` is removed) or panics in `index().unwrap()`
//! BEFORE any lock of the MultiProgress is taken.  The real code has two more outcomes:
//!   (P) `self.ordering.iter().position(..).unwrap()` panics INSIDE `MultiState::insert`, i.e. with
//!       the MultiState write lock held: the lock is poisoned and every later call on the
//!       MultiProgress (from any thread) panics;
//!   (M) the freed slot was recycled by `add(y)` in between: `x` is placed after `y`.
//! Not deterministic (the window is a few instructions wide): the race is repeated until one of
//! the two outcomes is seen.
#![cfg(feature = "in_memory")]

use std::panic::{catch_unwind, AssertUnwindSafe};
use std::sync::{Arc, Barrier};
use std::thread;

use indicatif::{InMemoryTerm, MultiProgress, ProgressBar, ProgressDrawTarget, ProgressStyle};

fn bar(msg: &'static str) -> ProgressBar {
    ProgressBar::with_draw_target(Some(10), ProgressDrawTarget::hidden())
        .with_style(ProgressStyle::with_template("{msg}").unwrap())
        .with_message(msg)
}

#[test]
fn insert_after_races_with_remove_of_the_reference_bar() {
    std::panic::set_hook(Box::new(|_| {}));
    let (mut poisoned, mut misplaced, mut sequential) = (0u32, 0u32, 0u32);
    for round in 0..40_000u32 {
        // even rounds: thread 2 removes `a` and adds `y` (looks for M); odd rounds: it only removes `a` (P)
        let with_add = round % 2 == 0;
        let term = InMemoryTerm::new(10, 40);
        let mp = MultiProgress::with_draw_target(ProgressDrawTarget::term_like(Box::new(term.clone())));
        let a = mp.add(bar("A"));
        let (x, y) = (bar("X"), bar("Y"));
        let gate = Arc::new(Barrier::new(2));
        let t1 = {
            let (mp, a, x, gate) = (mp.clone(), a.clone(), x.clone(), gate.clone());
            thread::spawn(move || {
                gate.wait();
                catch_unwind(AssertUnwindSafe(|| drop(mp.insert_after(&a, x)))).is_ok()
            })
        };
        let t2 = {
            let (mp, a, y, gate) = (mp.clone(), a.clone(), y.clone(), gate.clone());
            thread::spawn(move || {
                gate.wait();
                catch_unwind(AssertUnwindSafe(|| {
                    mp.remove(&a);
                    if with_add {
                        drop(mp.add(y));
                    }
                }))
                .is_ok()
            })
        };
        let ok1 = t1.join().unwrap();
        let _ok2 = t2.join().unwrap();
        // is the MultiProgress still usable?
        let alive = catch_unwind(AssertUnwindSafe(|| {
            x.tick();
            y.tick();
            mp.println("log").is_ok()
        }));
        match alive {
            Err(_) => poisoned += 1,
            Ok(_) => {
                let rows = term.contents();
                let bars: Vec<&str> = rows.lines().filter(|l| *l != "log").collect();
                if ok1 && bars == ["Y", "X"] {
                    misplaced += 1; // x inserted "after a" although a was gone: after y instead
                } else {
                    sequential += 1;
                }
            }
        }
        if poisoned > 0 && misplaced > 0 {
            break;
        }
    }
    let _ = std::panic::take_hook();
    eprintln!("sequential-looking outcomes {sequential}, poisoned {poisoned}, misplaced {misplaced}");
    assert_eq!((poisoned, misplaced), (0, 0), "outcomes that no sequential order of the calls has");
}
