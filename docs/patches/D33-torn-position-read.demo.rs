//! D33 "torn position read within one frame" -- deterministic demonstration.
//!
//! Install as `tests/torn_read_demo.rs` and run with DEFAULT features:
//!
//!     cargo test --offline --test torn_read_demo
//!
//! (it brings its own recording `TermLike`, so `--features in_memory` is not needed,
//! but it also builds and behaves identically with that feature on).
//!
//! Template: "{pos} {slow} {percent}", length 100, so `{pos}` and `{percent}` must show the
//! same number in every frame (for positions 0..=100).  `slow` is a custom key
//! (`ProgressStyle::with_key`) that, in the middle of ONE frame -- after `{pos}` has been
//! rendered and before `{percent}` is -- releases a second thread that calls `inc(1)` on a
//! clone of the bar.  `inc` stores the counter before it takes the bar mutex, so the store
//! lands while the frame is being rendered.  The key then waits (bounded: at most 2 s) until
//! `state.pos()` shows the new value and returns.
//!
//! On the unchanged code the frame reads "0 s 1": position 0 next to 1 %, a state the bar
//! never had.  With a one-read-per-frame repair the frame reads "0 s 0" (the key's wait then
//! runs into its 2 s bound because `state.pos()` shows the frame's snapshot too), and the
//! second thread's own draw afterwards reads "1 s 1".

use std::fmt::Write as _;
use std::io;
use std::sync::atomic::{AtomicBool, Ordering};
use std::sync::mpsc;
use std::sync::{Arc, Mutex};
use std::thread;
use std::time::{Duration, Instant};

use indicatif::{ProgressBar, ProgressDrawTarget, ProgressState, ProgressStyle, TermLike};

/// A `TermLike` that only records what is written, line by line.
#[derive(Debug, Clone, Default)]
struct Recorder {
    /// Completed writes, in order. One entry per `write_str` / `write_line` call.
    writes: Arc<Mutex<Vec<String>>>,
}

impl TermLike for Recorder {
    fn width(&self) -> u16 {
        80
    }
    fn height(&self) -> u16 {
        24
    }
    fn move_cursor_up(&self, _: usize) -> io::Result<()> {
        Ok(())
    }
    fn move_cursor_down(&self, _: usize) -> io::Result<()> {
        Ok(())
    }
    fn move_cursor_right(&self, _: usize) -> io::Result<()> {
        Ok(())
    }
    fn move_cursor_left(&self, _: usize) -> io::Result<()> {
        Ok(())
    }
    fn write_line(&self, s: &str) -> io::Result<()> {
        self.writes.lock().unwrap().push(s.to_owned());
        Ok(())
    }
    fn write_str(&self, s: &str) -> io::Result<()> {
        self.writes.lock().unwrap().push(s.to_owned());
        Ok(())
    }
    fn clear_line(&self) -> io::Result<()> {
        Ok(())
    }
    fn flush(&self) -> io::Result<()> {
        Ok(())
    }
}

/// Parses a recorded write of the form "<pos> s <percent>" (surrounding blanks allowed).
fn parse_frame(s: &str) -> Option<(u64, u64)> {
    let mut it = s.split_whitespace();
    let pos = it.next()?.parse().ok()?;
    if it.next()? != "s" {
        return None;
    }
    let pct = it.next()?.parse().ok()?;
    if it.next().is_some() {
        return None;
    }
    Some((pos, pct))
}

#[test]
fn pos_and_percent_of_one_frame_agree() {
    let rec = Recorder::default();
    let pb = ProgressBar::with_draw_target(
        Some(100),
        ProgressDrawTarget::term_like(Box::new(rec.clone())), // no rate limit: every draw paints
    );

    // The key fires its mid-frame interference exactly once, and only when armed.
    let armed = Arc::new(AtomicBool::new(false));
    let (release_tx, release_rx) = mpsc::channel::<()>();
    let release_tx = Arc::new(Mutex::new(release_tx)); // `with_key` closures must be Sync + Clone
    let key_saw_new_value = Arc::new(AtomicBool::new(false));

    let style = ProgressStyle::with_template("{pos} {slow} {percent}")
        .unwrap()
        .with_key("slow", {
            let armed = armed.clone();
            let key_saw_new_value = key_saw_new_value.clone();
            move |state: &ProgressState, w: &mut dyn std::fmt::Write| {
                if armed.swap(false, Ordering::SeqCst) {
                    let before = state.pos();
                    // Let the other thread call `inc(1)` on its clone, now, mid-frame.
                    release_tx.lock().unwrap().send(()).unwrap();
                    // Bounded wait until this very frame's view of the position changes.
                    let deadline = Instant::now() + Duration::from_secs(2);
                    while Instant::now() < deadline {
                        if state.pos() != before {
                            key_saw_new_value.store(true, Ordering::SeqCst);
                            break;
                        }
                        thread::sleep(Duration::from_millis(1));
                    }
                }
                w.write_str("s").unwrap();
            }
        });
    pb.set_style(style);

    // The second thread: holds a clone, waits to be released, then advances by one.
    let helper = thread::spawn({
        let clone = pb.clone();
        move || {
            release_rx.recv().unwrap();
            // Stores the counter first (no lock), then blocks on the bar mutex until the
            // frame in progress is finished, then draws a frame of its own.
            clone.inc(1);
        }
    });

    rec.writes.lock().unwrap().clear();
    armed.store(true, Ordering::SeqCst);
    pb.tick(); // the frame under test
    helper.join().unwrap();

    assert_eq!(pb.position(), 1, "the second thread's inc(1) must have happened");

    let writes = rec.writes.lock().unwrap().clone();
    let frames: Vec<(u64, u64)> = writes.iter().filter_map(|s| parse_frame(s)).collect();
    let mut report = String::new();
    for s in &writes {
        writeln!(report, "  {s:?}").unwrap();
    }
    eprintln!(
        "recorded writes:\n{report}key saw the new value inside the frame: {}",
        key_saw_new_value.load(Ordering::SeqCst)
    );

    // Two frames: the one under test, and the helper's own afterwards.
    assert_eq!(frames.len(), 2, "expected two frames, writes were:\n{report}");
    assert_eq!(frames[1], (1, 1), "the helper's own frame shows the new state");

    // THE property: within one frame, {pos} and {percent} come from the same position.
    for (pos, pct) in &frames {
        assert_eq!(
            pos, pct,
            "torn frame: {{pos}}={pos} next to {{percent}}={pct} -- a state the bar never had; writes were:\n{report}"
        );
    }
}
