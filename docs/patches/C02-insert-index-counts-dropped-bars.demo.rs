//! Demonstration for the finding CANDIDATE / interpretation I6 of docs/C02.md (third audit, finding 5):
//! the index of `MultiProgress::insert` / `insert_from_back` counts bars that have been dropped but
//! not reaped yet.  Place as `tests/insert_index_demo.rs`;
//! `cargo test --offline --features in_memory --test insert_index_demo`.
//!
//! The user holds A and C; B finished with finish_and_clear and its last handle is gone: nothing of B
//! is on the screen and nothing of it ever will be.  `insert(2, D)` - "position 2 of the list",
//! documented as "if index >= MultiProgressState::objects.len() the bar is added to the end" - puts D
//! BETWEEN A and C, because B (not the first bar of the list, hence not reaped) is still counted.
//! Had B been the first bar it would have left the list at once and the same call would append D.
//! Whether a dropped bar behind the head has left the list also depends on whether a draw was
//! PAINTED since the bars before it went away (the refresh limiter can refuse it).
#![cfg(feature = "in_memory")]

use indicatif::{InMemoryTerm, MultiProgress, ProgressBar, ProgressDrawTarget, ProgressStyle};

fn bar(mp: &MultiProgress, msg: &'static str) -> ProgressBar {
    mp.add(
        ProgressBar::new_spinner()
            .with_style(ProgressStyle::with_template("{msg}").unwrap())
            .with_message(msg),
    )
}

#[test]
fn insert_index_counts_a_dropped_invisible_bar() {
    let term = InMemoryTerm::new(10, 40);
    let mp = MultiProgress::with_draw_target(ProgressDrawTarget::term_like(Box::new(term.clone())));
    let a = bar(&mp, "A");
    let b = bar(&mp, "B");
    let c = bar(&mp, "C");
    a.tick();
    b.tick();
    c.tick();
    assert_eq!(term.contents(), "A\nB\nC");

    b.finish_and_clear();
    drop(b);
    assert_eq!(term.contents(), "A\nC");

    // the visible list is [A, C]: index 2 is its end
    let d = mp.insert(
        2,
        ProgressBar::new_spinner()
            .with_style(ProgressStyle::with_template("{msg}").unwrap())
            .with_message("D"),
    );
    d.tick();
    // what a user holding [A, C] expects
    assert_eq!(term.contents(), "A\nC\nD", "D was inserted relative to the invisible, dropped bar B");
}
