//! Demonstration for docs/patches/C02-readd-no-effect.diff (property C02).
//! Place as `tests/readd_demo.rs`; `cargo test --offline --features in_memory --test readd_demo`.
//! "Adding a progress bar that is already a member of the MultiProgress will have no effect"
//! (doc comments of MultiProgress::add / insert / insert_from_back / insert_before / insert_after).
#![cfg(feature = "in_memory")]

use indicatif::{InMemoryTerm, MultiProgress, ProgressBar, ProgressDrawTarget, ProgressStyle};

fn bar(msg: &'static str) -> ProgressBar {
    ProgressBar::with_draw_target(Some(10), ProgressDrawTarget::hidden())
        .with_style(ProgressStyle::with_template("{msg}").unwrap())
        .with_message(msg)
}

#[test]
fn adding_a_member_again_has_no_effect() {
    let term = InMemoryTerm::new(10, 40);
    let mp = MultiProgress::with_draw_target(ProgressDrawTarget::term_like(Box::new(term.clone())));
    let a = mp.add(bar("A"));
    let b = mp.add(bar("B"));
    a.tick();
    b.tick();
    assert_eq!(term.contents(), "A\nB");

    // no effect: A stays where it is (and stays visible)
    let a = mp.add(a);
    assert_eq!(term.contents(), "A\nB");

    // position 1 of the list [A, B] is between A and B
    let c = mp.insert(1, bar("C"));
    a.tick();
    b.tick();
    c.tick();
    assert_eq!(term.contents(), "A\nC\nB");

    // the first bar can still be reaped when it is finished and dropped
    a.finish();
    drop(a);
    b.tick();
    mp.println("log").unwrap();
    b.tick();
    c.tick();
    assert_eq!(term.contents(), "log\nC\nB");
}
